#!/bin/sh
# Runs every self-test mutant (selftest/patches/INDEX) against the quick check of each property expected to flag it.
# Output: one line per (mutant, property) in selftest/RESULTS.txt
cd "$(dirname "$0")/.."
out=selftest/RESULTS.txt
: > $out
while read name props; do
  for p in $(echo $props | tr ',' ' '); do
    echo "SELFTEST $name" >> $out
    ./bin/mutest $(pwd)/selftest/patches/$name.diff quick $p >> $out 2>&1
  done
done < selftest/patches/INDEX
