#!/usr/bin/env python3
"""Builds seeded/RESULTS.md from seeded/*/meta.json (written by bin/seedproc)."""
import json
from pathlib import Path
VERIF = Path(__file__).resolve().parent.parent
rows = []
for d in sorted((VERIF / "seeded").iterdir()):
    m = d / "meta.json"
    if not m.exists():
        continue
    j = json.loads(m.read_text())
    conf = j.get("confirmed_by_me", {})
    runs = j.get("checks_run", [])
    caught = j.get("caught_by_quick", [])
    if j.get("status"):
        outcome = j["status"]
    elif caught:
        cells = set()
        for r in runs:
            if r["exit_code"] == 1:
                import re
                cells |= set(re.findall(r"replays/[A-Z0-9]+-([A-Za-z_0-9-]+)\.json", r.get("output", "")))
        outcome = "caught by " + ", ".join(caught) + (" (" + ", ".join(sorted(cells))[:150] + ")" if cells else "")
    elif runs and all(r["exit_code"] == 0 for r in runs):
        outcome = "not caught (check passes)"
    elif runs:
        outcome = "inconclusive (exit 2): " + runs[-1].get("output", "")[:120]
    else:
        outcome = "not run"
    rows.append((d.name, j.get("property", ""), (j.get("what") or "").replace("|", "/")[:170],
                 "yes" if conf.get("confirmed") else ("n/a" if not conf else "NO"), outcome.replace("|", "/")))
out = ["# Seeded changes written by independent sub-agents", "",
       "Round 1 (-A, -B) was written in the second session, round 2 (-C, -D) in the third; each by a fresh sub-agent that saw",
       "only the property text and its own scratch worktree. `confirmed` = bin/confirm-seed: suite green with the patch,",
       "demonstration fails with it and passes without it. Outcome = the property's own quick check run by bin/mutest",
       "against a patched copy of /repo (see each meta.json for the exact output and the /verif commit).", "",
       "| seed | property | change | confirmed | outcome |", "|---|---|---|---|---|"]
for r in rows:
    out.append("| %s | %s | %s | %s | %s |" % r)
n = len(rows)
c = sum(1 for r in rows if r[4].startswith("caught"))
out += ["", f"{c} of {n} seeded changes are caught by the quick check of the property they break."]
(VERIF / "seeded" / "RESULTS.md").write_text("\n".join(out) + "\n")
print(out[-1])
