#!/usr/bin/env python3
"""Copies the independently written seeded changes (sub-agent output under /tmp/mut/<ID>.out/{A,B}) into
/verif/seeded/<ID>-<A|B>/ with a meta.json built from the confirmation log (bin/confirm-seed) and the
check runs (bin/mutest).  usage: collect_seeded.py <confirm.out> <mutest outputs...>"""
import json, re, shutil, sys
from pathlib import Path
VERIF = Path(__file__).resolve().parent.parent
conf = {}
for line in Path(sys.argv[1]).read_text().splitlines():
    m = re.match(r"(C\d+)-([AB]): suite_with_patch_rc=(\d+) demo_with_patch_rc=(\d+) demo_without_patch_rc=(\d+) filters=\[(.*)\]", line)
    if m:
        conf[(m.group(1), m.group(2))] = dict(suite_with_patch_rc=int(m.group(3)), demo_with_patch_rc=int(m.group(4)),
                                              demo_without_patch_rc=int(m.group(5)), demo_files=m.group(6).split())
runs = {}
for f in sys.argv[2:]:
    for line in Path(f).read_text().splitlines():
        m = re.match(r"([AB])/patch\.diff (C\d+) rc=(\d+) :: (.*)", line)
        if not m:
            continue
        # the seed id is not in the line; recover from replay path or order: lines are prefixed by us below
        runs.setdefault(line, None)
# mutest lines do not carry the seed's property id, so the batch scripts echo "SEED <ID> <AB>" before each run
cur = None
res = {}
for f in sys.argv[2:]:
    for line in Path(f).read_text().splitlines():
        m = re.match(r"SEED (C\d+) ([AB])", line)
        if m:
            cur = (m.group(1), m.group(2)); continue
        m = re.match(r"[AB]/patch\.diff (C\d+) rc=(\d+) :: (.*)", line)
        if m and cur:
            res.setdefault(cur, []).append(dict(check=m.group(1), tier="quick", exit_code=int(m.group(2)), output=m.group(3)))
out = VERIF / "seeded"
out.mkdir(exist_ok=True)
for (pid, ab), c in sorted(conf.items()):
    src = Path(f"/tmp/mut/{pid}.out/{ab}")
    ok = c["suite_with_patch_rc"] == 0 and c["demo_with_patch_rc"] != 0 and c["demo_without_patch_rc"] == 0
    if not ok or not src.exists():
        print("skip", pid, ab, c); continue
    d = out / f"{pid}-{ab}"
    d.mkdir(exist_ok=True)
    for n in ("patch.diff", "demo.diff", "README.md"):
        if (src / n).exists():
            shutil.copy(src / n, d / n)
    readme = (src / "README.md").read_text() if (src / "README.md").exists() else ""
    checks = res.get((pid, ab), [])
    meta = {
        "property": pid,
        "origin": "written by a fresh sub-agent that saw only the property text and its own scratch worktree of /repo",
        "needs_to_manifest": "see README.md (sub-agent's own description)",
        "confirmed_by_me": {
            "how": "bin/confirm-seed in a scratch git worktree of /repo: existing suite with the patch "
                   "(cargo test --workspace --no-fail-fast --offline), demonstration with and without the patch",
            **c,
        },
        "checks_run": checks,
        "caught_by_quick": [r["check"] for r in checks if r["exit_code"] == 1],
        "how_checks_were_run": "bin/mutest: patch applied to a scratch copy of /repo (VERIF_REPO), never to /repo itself; "
                               "the check copies that tree exactly as it copies /repo",
    }
    (d / "meta.json").write_text(json.dumps(meta, indent=1) + "\n")
    print("kept", d.name, "caught by", meta["caught_by_quick"])
