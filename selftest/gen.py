#!/usr/bin/env python3
"""Generates the self-test mutants (the acceptance list of DESIGN.md section 8) as patch files against /repo HEAD.
Each entry: name, property ids expected to flag it, file, old text, new text."""
import os, subprocess, sys, tempfile, shutil
from pathlib import Path
HERE = Path(__file__).resolve().parent
REPO = Path("/repo")
M = [
 # C01
 ("c01_refs_no_drop_input", ["C01"], "src/benchmark/mod.rs",
  "            |input| {\n                // SAFETY: This function is called after `benched` outputs are\n                // dropped, so we have exclusive access.\n                unsafe { (*input.get()).assume_init_drop() }\n            },\n        );\n    }\n\n    /// Benchmarks a function over per-iteration [generated inputs](Self::with_inputs),\n    /// provided by-reference.\n    ///\n    /// Per-iteration means the benchmarked function is called exactly once for\n    /// each generated input.\n    ///\n    /// # Examples\n    ///\n    /// ```\n    /// #[divan::bench]\n    /// fn bench(bencher: divan::Bencher) {\n    ///     bencher\n    ///         .with_inputs(|| {\n    ///             // Generate input:\n    ///             String::from(\"...\")\n    ///         })\n    ///         .bench_local_refs(",
  "            |_input| {},\n        );\n    }\n\n    /// Benchmarks a function over per-iteration [generated inputs](Self::with_inputs),\n    /// provided by-reference.\n    ///\n    /// Per-iteration means the benchmarked function is called exactly once for\n    /// each generated input.\n    ///\n    /// # Examples\n    ///\n    /// ```\n    /// #[divan::bench]\n    /// fn bench(bencher: divan::Bencher) {\n    ///     bencher\n    ///         .with_inputs(|| {\n    ///             // Generate input:\n    ///             String::from(\"...\")\n    ///         })\n    ///         .bench_local_refs("),
 ("c01_input_before_output", ["C01"], "src/benchmark/mod.rs",
  "                            unsafe { (*output.get()).assume_init_drop() }\n\n                            if mem::needs_drop::<I>() {\n                                // SAFETY: The output was dropped and thus we\n                                // have exclusive access to inputs.\n                                unsafe { drop_input(input) }\n                            }",
  "                            if mem::needs_drop::<I>() {\n                                // SAFETY: The output was dropped and thus we\n                                // have exclusive access to inputs.\n                                unsafe { drop_input(input) }\n                            }\n\n                            unsafe { (*output.get()).assume_init_drop() }"),
 ("c01_local_keeps_threads", ["C01"], "src/benchmark/mod.rs",
  "            self.thread_count = NonZeroUsize::MIN;\n", ""),
 ("c01_zst_double_output_drop", ["C01"], "src/benchmark/mod.rs",
  "                    mem::forget(black_box(benched(&input)));", "                    black_box_drop(benched(&input));"),
 # C02
 ("c02_save_after_drops", ["C02", "C01", "C08"], "src/benchmark/mod.rs",
  "                        sample_end = UntaggedTimestamp::end(timer_kind);\n                        sync_threads(false);\n                        save_alloc_info();\n\n                        // Prevent the optimizer from removing writes to inputs\n                        // and outputs in the sample loop.\n                        black_box(defer_slots_slice);\n\n                        // Drop outputs and inputs.\n                        for DeferSlot { input, output } in defer_slots_slice {\n                            // SAFETY: All outputs were initialized in the\n                            // sample loop and we have exclusive access.\n                            unsafe { (*output.get()).assume_init_drop() }\n\n                            if mem::needs_drop::<I>() {\n                                // SAFETY: The output was dropped and thus we\n                                // have exclusive access to inputs.\n                                unsafe { drop_input(input) }\n                            }\n                        }",
  "                        sample_end = UntaggedTimestamp::end(timer_kind);\n                        sync_threads(false);\n\n                        // Prevent the optimizer from removing writes to inputs\n                        // and outputs in the sample loop.\n                        black_box(defer_slots_slice);\n\n                        // Drop outputs and inputs.\n                        for DeferSlot { input, output } in defer_slots_slice {\n                            // SAFETY: All outputs were initialized in the\n                            // sample loop and we have exclusive access.\n                            unsafe { (*output.get()).assume_init_drop() }\n\n                            if mem::needs_drop::<I>() {\n                                // SAFETY: The output was dropped and thus we\n                                // have exclusive access to inputs.\n                                unsafe { drop_input(input) }\n                            }\n                        }\n                        save_alloc_info();"),
 ("c02_start_before_sync_inputs_only", ["C02", "C08", "C01"], "src/benchmark/mod.rs",
  "                        let defer_inputs_iter = defer_inputs_slice.iter();\n\n                        sync_threads(true);\n                        sample_start = UntaggedTimestamp::start(timer_kind);",
  "                        let defer_inputs_iter = defer_inputs_slice.iter();\n\n                        sample_start = UntaggedTimestamp::start(timer_kind);\n                        sync_threads(true);"),
 # C03
 ("c03_rem_once_per_round", ["C03"], "src/benchmark/mod.rs",
  "                if let Some(rem_samples) = &mut rem_samples {\n                    *rem_samples = rem_samples.saturating_sub(1);\n                }\n            }\n",
  "            }\n            if let Some(rem_samples) = &mut rem_samples {\n                *rem_samples = rem_samples.saturating_sub(1);\n            }\n"),
 ("c03_has_samples_ignores_size", ["C03", "C15"], "src/benchmark/options.rs",
  "self.sample_count != Some(0) && self.sample_size != Some(0)", "self.sample_count != Some(0)"),
 ("c03_iter_count_capacity", ["C03", "C05"], "src/stats/sample.rs",
  "self.sample_size as u64 * self.time_samples.len() as u64", "self.sample_size as u64 * self.time_samples.capacity() as u64"),
 # C04
 ("c04_max_strict", ["C04"], "src/benchmark/mod.rs", "if elapsed_picos >= max_picos {", "if elapsed_picos > max_picos {"),
 ("c04_no_min_progress", ["C04"], "src/benchmark/mod.rs", "slowest_time.picos.max(1_000)", "slowest_time.picos.max(1)"),
 ("c04_elapsed_from_start", ["C04"], "src/benchmark/mod.rs",
  "let last_end = raw_samples.iter().map(|s| s.end).max().unwrap();", "let last_end = raw_samples.iter().map(|s| s.start).max().unwrap();"),
 ("c04_min_le", ["C04"], "src/benchmark/mod.rs", "                elapsed_picos < min_picos\n", "                elapsed_picos <= min_picos\n"),
 # C05
 ("c05_median_upper_only", ["C05"], "src/util/mod.rs", "&slice[(len / 2) - 1..][..2]", "&slice[(len / 2)..][..1]"),
 ("c05_mean_by_samples", ["C05"], "src/benchmark/mod.rs", ".checked_div(total_count as u128)", ".checked_div(sample_count as u128)"),
 ("c05_counter_sorted_pos", ["C05"], "src/benchmark/mod.rs",
  "                .first()\n                    .and_then(|s| counter_count_for_sample(s, counter_kind))?,",
  "                .last()\n                    .and_then(|s| counter_count_for_sample(s, counter_kind))?,"),
 # C08
 ("c08_no_second_wait", ["C08"], "src/benchmark/mod.rs",
  "                        alloc_info.clear();\n\n                        // Synchronize all threads.\n                        if let Some(barrier) = barrier {\n                            barrier.wait();\n                        }",
  "                        alloc_info.clear();"),
 # C09
 ("c09_realloc_layout_size", ["C09"], "src/alloc.rs", "self.alloc.realloc(ptr, layout, new_size)", "self.alloc.realloc(ptr, layout, new_size.max(layout.size()))"),
 ("c09_zeroed_to_alloc_large", ["C09"], "src/alloc.rs", "        self.alloc.alloc_zeroed(layout)", "        if layout.size() > (1 << 40) { return self.alloc.alloc(layout); }\n        self.alloc.alloc_zeroed(layout)"),
 # C10
 ("c10_max_before_inc", ["C10"], "src/alloc.rs",
  "        self.current_count += 1;\n        self.max_count = self.max_count.max(self.current_count);", "        self.max_count = self.max_count.max(self.current_count);\n        self.current_count += 1;"),
 ("c10_equal_realloc_shrink", ["C10"], "src/alloc.rs", "let (diff, is_shrink) = new_size.overflowing_sub(old_size);", "let (diff, _) = new_size.overflowing_sub(old_size);\n        let is_shrink = new_size <= old_size;"),
 # C11
 ("c11_mul_before_widen", ["C11"], "src/time/timestamp/tsc/mod.rs", "(diff as u128 * PICOS) / frequency.get() as u128", "(diff.wrapping_mul(PICOS as u64) as u128) / frequency.get() as u128"),
 ("c11_duration_mul", ["C11"], "src/time/fine_duration.rs", "duration.as_nanos().checked_mul(1_000)", "(duration.as_micros() * 1_000).checked_mul(1_000)"),
 # C12
 ("c12_iter_stops_early", ["C12"], "src/entry/list.rs", "            list = current.next();\n            Some(current.entry.as_ref().copied())", "            list = current.next();\n            list?;\n            Some(current.entry.as_ref().copied())"),
 # C13
 ("c13_index_gt", ["C13"], "src/config/filter.rs", "return index >= inclusive_start;", "return index > inclusive_start;"),
 ("c13_split_no_move", ["C13"], "src/util/split_vec.rs", "                split_ptr.copy_to(last_ptr, 1);\n", ""),
 # C14
 ("c14_list_benches_test", ["C14"], "src/divan.rs", "    pub fn list_benches(&self) {\n        self.run_action(Action::List);", "    pub fn list_benches(&self) {\n        self.run_action(Action::Test);"),
 # C15
 ("c15_min_time_other_first", ["C15"], "src/benchmark/options.rs", "min_time: self.min_time.or(other.min_time),", "min_time: other.min_time.or(self.min_time),"),
 ("c15_run_tree_parent_over_child", ["C15"], "src/divan.rs", "options = child_options.overwrite(parent_options);", "options = parent_options.overwrite(child_options);"),
 ("c15_only_flipped", ["C15", "C14"], "src/config/mod.rs", "matches!(self, Self::Yes | Self::No)", "matches!(self, Self::Yes | Self::No | Self::Only)"),
 # C16
 ("c16_cmp_int_no_len", ["C16"], "src/util/sort.rs", "    match a.len().cmp(&b.len()) {\n        Ordering::Equal => {}\n        ord => return ord,\n    }\n", ""),
 ("c16_neg_greater", ["C16"], "src/config/mod.rs", "                                // a < b, because a is negative.\n                                break 'ordering Ordering::Less;", "                                // a < b, because a is negative.\n                                break 'ordering Ordering::Greater;"),
 # C17
 ("c17_no_typeid", ["C17"], "src/benchmark/args.rs", "if self.arg_type == TypeId::of::<T>() {", "if self.arg_type == TypeId::of::<T>() || size_of::<T>() == 1 {"),
 # C18
 ("c18_unit_boundary_le", ["C18"], "src/time/fine_duration.rs", "        } else if picos < MILLIS {", "        } else if picos <= MILLIS {"),
 ("c18_scale_binary_start", ["C18"], "src/util/fmt.rs", "            1024u64.pow(3) as f64,", "            1000u64.pow(3) as f64,"),
 # C19
 ("c19_threshold_lt", ["C19"], "src/benchmark/mod.rs", "if precision_multiple <= 100 {", "if precision_multiple < 100 {"),
 ("c19_no_clear", ["C19"], "src/benchmark/mod.rs", "                self.samples.clear();\n                self.counters.clear_input_counts();", "                self.counters.clear_input_counts();"),
 ("c19_plus_one", ["C19"], "src/benchmark/mod.rs", "BenchMode::Tune { sample_size: sample_size * 2 }", "BenchMode::Tune { sample_size: sample_size * 2 - (sample_size >> 1) }"),
 # C20
 ("c20_bar_for_last", ["C20"], "src/tree_painter.rs", "            self.current_prefix.push_str(if !is_last {\n                \"│  \"\n            } else {\n                \"   \"\n            });", "            self.current_prefix.push_str(if !is_last || self.depth > 2 {\n                \"│  \"\n            } else {\n                \"   \"\n            });"),
 ("c20_truncate_two", ["C20"], "src/tree_painter.rs", "_ = iter.by_ref().rev().nth(2);", "_ = iter.by_ref().rev().nth(1);"),
]

def main():
    out = HERE / "patches"
    if out.exists():
        shutil.rmtree(out)
    out.mkdir()
    idx = []
    for name, props, f, old, new in M:
        src = (REPO / f).read_text()
        if src.count(old) != 1:
            print(f"!! {name}: old text occurs {src.count(old)} times in {f}")
            continue
        with tempfile.TemporaryDirectory() as td:
            a = Path(td) / "a" / f; b = Path(td) / "b" / f
            a.parent.mkdir(parents=True); b.parent.mkdir(parents=True)
            a.write_text(src); b.write_text(src.replace(old, new))
            r = subprocess.run(["diff", "-u", f"a/{f}", f"b/{f}"], cwd=td, capture_output=True, text=True)
            (out / f"{name}.diff").write_text(r.stdout)
        idx.append(f"{name} {','.join(props)}")
    (out / "INDEX").write_text("\n".join(idx) + "\n")
    print(f"{len(idx)} patches written to {out}")

if __name__ == "__main__":
    main()
