#!/usr/bin/env python3
"""Kani/CBMC driver for the divan property checks.

Everything a check decides is decided by CBMC's SAT back end over the goto
program Kani generates from /repo's *current working tree* (copied to a scratch
directory on every run, harness modules attached with `#[path]`).  This file
only builds, runs, parses and reports; it never decides a property itself.
"""
import json
import os
import re
import resource
import shutil
import signal
import subprocess
import sys
import time
from concurrent.futures import ThreadPoolExecutor
from pathlib import Path

VERIF = Path(__file__).resolve().parent.parent
REPO = Path(os.environ.get("VERIF_REPO", "/repo"))
HARNESS_DIR = VERIF / "harness"
GUARD = "nvzqz_divan_verif"
TOTAL_MEM_GB = int(os.environ.get("VERIF_MEM_GB", "52"))
MAX_PAR = int(os.environ.get("VERIF_JOBS", "12"))

ENV = dict(os.environ)
ENV["CARGO_NET_OFFLINE"] = "true"
ENV.setdefault("CARGO_TERM_COLOR", "never")


# --------------------------------------------------------------------------
# harness registry: parsed from annotations inside /verif/harness/*.rs
# --------------------------------------------------------------------------

class Cell:
    def __init__(self, file, attach, fn, attrs, desc):
        self.file = file              # Path of the harness .rs
        self.attach = attach          # repo-relative module file it is attached to
        self.fn = fn                  # harness fn name
        self.props = attrs.get("props", "").split(",")
        self.tier = attrs.get("tier", "quick")
        self.kind = attrs.get("kind", "core")      # core | attempt
        self.timeout = int(attrs.get("timeout", "600"))
        self.mem = int(attrs.get("mem", "10"))
        self.cls = attrs.get("cls", "K")           # N = native replay available, K = kani only
        self.unwindset = attrs.get("unwindset", "")
        # per-loop bounds by pattern: "regex:N,regex:N" - loop ids (mangled, hash-dependent) are discovered from CBMC's
        # "Not unwinding loop <id>" lines of a first cheap run and matched against the patterns, then the query is re-run
        self.unwindre = attrs.get("unwindre", "")
        self.extra = attrs.get("extra", "")         # extra seed group etc.
        self.expect_unsat_covers = int(attrs.get("unsat_covers", "0"))
        self.ignore_re = attrs.get("ignore_re", "")   # engine artefacts (documented per cell) matched on "function|description"
        self.desc = desc
        self.reach = attrs.get("reach", "0") == "1"   # assertion reachability checks (3-4x slower) on/off
        self.needs = []
        self.mod = "verif_harness_" + file.stem

    @property
    def modpath(self):
        p = Path(self.attach)
        parts = list(p.with_suffix("").parts)
        assert parts[0] == "src"
        parts = parts[1:]
        if parts and parts[-1] in ("mod", "lib"):
            parts = parts[:-1]
        # src/private.rs is mounted as `pub mod __private` (#[path] in lib.rs)
        parts = ["__private" if (i == 0 and x == "private") else x for i, x in enumerate(parts)]
        return "::".join(parts)

    @property
    def harness(self):
        mp = self.modpath
        return (mp + "::" if mp else "") + self.mod + "::" + self.fn

    @property
    def name(self):
        return self.file.stem + "::" + self.fn


def load_cells():
    cells = []
    for f in sorted(HARNESS_DIR.glob("*.rs")):
        attach = None
        pending = None
        desc = ""
        needs = []
        for line in f.read_text().splitlines():
            s = line.strip()
            m = re.match(r"//\s*@attach\s+(\S+)", s)
            if m:
                attach = m.group(1)
                continue
            m = re.match(r"//\s*@needs\s+(.*)", s)
            if m:
                needs += m.group(1).split()
                continue
            m = re.match(r"//\s*@cell\s+(.*)", s)
            if m:
                pending = dict(kv.split("=", 1) for kv in m.group(1).split())
                desc = ""
                continue
            m = re.match(r"//\s*@desc\s+(.*)", s)
            if m and pending is not None:
                desc = (desc + " " + m.group(1)).strip()
                continue
            m = re.match(r"(?:pub\s+)?fn\s+([A-Za-z0-9_]+)\s*\(", s)
            if m and pending is not None:
                if attach is None:
                    raise SystemExit(f"{f}: @cell before @attach")
                cells.append(Cell(f, attach, m.group(1), pending, desc))
                cells[-1].needs = needs
                pending = None
    return cells


# --------------------------------------------------------------------------
# scratch tree
# --------------------------------------------------------------------------

def make_scratch(tag):
    base = Path(os.environ.get("VERIF_SCRATCH_BASE", "/tmp"))
    d = base / f"divan-verif-{tag}-{os.getpid()}"
    if d.exists():
        shutil.rmtree(d)
    d.mkdir(parents=True)
    src = d / "divan"
    subprocess.run(
        ["rsync", "-a", "--exclude", "/target", "--exclude", ".git", str(REPO) + "/", str(src) + "/"],
        check=True,
    )
    return d


def attach_file_of(stem):
    f = HARNESS_DIR / (stem + ".rs")
    for line in f.read_text().splitlines():
        m = re.match(r"//\s*@attach\s+(\S+)", line.strip())
        if m:
            return (f, m.group(1))
    raise RuntimeError(f"{f}: no @attach")


def attach_list(cells):
    out = []
    for c in cells:
        for item in [(c.file, c.attach)] + [attach_file_of(n) for n in c.needs]:
            if item not in out:
                out.append(item)
    return out


KANI_FEATURES = "formatting_options, allocator_api"


def attach_modules(src, files, cfg="kani"):
    """Append `#[cfg(..)] #[path] mod verif_harness_<stem>;` to each module file."""
    done = set()
    lib = src / "src" / "lib.rs"
    if cfg == "kani" and lib.exists():
        # unstable std constructors some harnesses need (Formatter::new); active only under cfg(kani)
        text = lib.read_text()
        tag = f"#![cfg_attr(kani, feature({KANI_FEATURES}))]\n"
        if not text.startswith(tag):
            lib.write_text(tag + text)
    for hf, attach in files:
        if (hf, attach) in done:
            continue
        done.add((hf, attach))
        target = src / attach
        if not target.exists():
            raise RuntimeError(f"attach target {attach} missing in repo tree")
        with open(target, "a") as fh:
            fh.write(
                f'\n#[cfg({cfg})]\n#[allow(warnings)]\n#[path = "{hf}"]\nmod verif_harness_{hf.stem};\n'
            )


def hooks_present():
    return (REPO / "src" / "verif_seam.rs").exists()


def kani_env():
    env = dict(ENV)
    flags = env.get("RUSTFLAGS", "")
    if hooks_present():
        flags = (flags + f" --cfg {GUARD}").strip()
    if flags:
        env["RUSTFLAGS"] = flags
    return env


def mem_available_gb():
    try:
        for line in open("/proc/meminfo"):
            if line.startswith("MemAvailable:"):
                return int(line.split()[1]) / (1 << 20)
    except OSError:
        pass
    return 1e9


def _limit(mem_gb):
    def f():
        os.setsid()
        if mem_gb:
            b = mem_gb * (1 << 30)
            resource.setrlimit(resource.RLIMIT_AS, (b, b))
    return f


def run_proc(cmd, cwd, timeout, mem_gb, log, env):
    t0 = time.time()
    with open(log, "w") as fh:
        p = subprocess.Popen(cmd, cwd=cwd, stdout=fh, stderr=subprocess.STDOUT, env=env,
                             preexec_fn=_limit(mem_gb))
        try:
            rc = p.wait(timeout=timeout)
            timed_out = False
        except subprocess.TimeoutExpired:
            timed_out = True
            try:
                os.killpg(p.pid, signal.SIGKILL)
            except ProcessLookupError:
                pass
            p.wait()
            rc = -9
    return rc, timed_out, time.time() - t0


KANI_BASE = ["cargo", "kani", "--no-default-features", "-Z", "stubbing", "-Z", "unstable-options"]


def build(scratch, first_harness=None):
    """Builds the dependencies and type-checks the whole scratch crate (all attached harness modules);
    goto code is generated for one harness only (each query regenerates its own)."""
    src = scratch / "divan"
    log = scratch / "build.log"
    cmd = KANI_BASE + ["--only-codegen", "--target-dir", str(scratch / "target")]
    if first_harness:
        cmd += ["--harness", first_harness, "--exact"]
    rc, to, dt = run_proc(cmd, src, 1200, 0, log, kani_env())
    return rc == 0 and not to, dt, log


# --------------------------------------------------------------------------
# one cell = one solver query
# --------------------------------------------------------------------------

def run_cell(scratch, cell, extra_cbmc=None, tag=""):
    if not cell.unwindre:
        return run_cell_once(scratch, cell, extra_cbmc, tag)
    pats = [(re.compile(x.rsplit(":", 1)[0]), int(x.rsplit(":", 1)[1])) for x in cell.unwindre.split(",")]
    found = {}
    total = 0.0
    res = None
    for attempt in range(4):
        uw = list(extra_cbmc or [])
        if found:
            sets = ([cell.unwindset] if cell.unwindset else []) + [f"{k}:{v}" for k, v in sorted(found.items())]
            uw += ["--unwindset", ",".join(sets)]
        saved, cell.unwindset = cell.unwindset, ("" if found else cell.unwindset)
        try:
            res = run_cell_once(scratch, cell, uw, tag)
        finally:
            cell.unwindset = saved
        total += res["wall_s"]
        if res["verdict"] != "UNWIND":
            break
        try:
            text = Path(res["log"]).read_text(errors="replace")
        except OSError:
            break
        new = False
        for lid in set(re.findall(r"Not unwinding loop (\S+) iteration", text)):
            for rx, n in pats:
                if rx.search(lid) and found.get(lid) != n:
                    found[lid] = n
                    new = True
        if not new:
            break
    res["wall_s"] = round(total, 2)
    res["unwindset_discovered"] = found
    return res


def run_cell_once(scratch, cell, extra_cbmc=None, tag=""):
    src = scratch / "divan"
    base = f"{cell.file.stem}.{cell.fn}{tag}"
    log = scratch / (base + ".log")
    js = scratch / (base + ".json")
    cmd = KANI_BASE + ["--harness", cell.harness, "--exact", "--target-dir", str(scratch / "target"),
                       "--export-json", str(js)]
    if not cell.reach:
        cmd += ["--no-assertion-reach-checks"]
    cbmc_args = []
    if cell.unwindset:
        cbmc_args += ["--unwindset", cell.unwindset]
    if extra_cbmc:
        cbmc_args += extra_cbmc
    if cbmc_args:
        cmd += ["--cbmc-args"] + cbmc_args
    rc, timed_out, dt = run_proc(cmd, src, cell.timeout, cell.mem, log, kani_env())
    res = {"cell": cell.name, "harness": cell.harness, "wall_s": round(dt, 2), "rc": rc,
           "timed_out": timed_out, "log": str(log), "kind": cell.kind, "tier": cell.tier,
           "desc": cell.desc, "cls": cell.cls}
    res.update(parse_result(js, log, timed_out, cell.ignore_re))
    # an expected number of unsatisfiable covers may be declared (none by default)
    if res["verdict"] == "PASS" and len(res["covers_unsat"]) > cell.expect_unsat_covers:
        res["verdict"] = "VACUOUS"
        res["reason"] = "cover not satisfiable: " + "; ".join(res["covers_unsat"][:3])
    elif res["verdict"] == "PASS" and not res["covers_sat"]:
        res["verdict"] = "VACUOUS"
        res["reason"] = "harness has no satisfied kani::cover! witness (every harness must carry one)"
    return res


def _is_repo_file(path):
    return path.startswith("src/") or "/divan/src/" in path


def parse_result(js, log, timed_out, ignore_re=""):
    out = {"verdict": "INCONCLUSIVE", "reason": "", "checks_total": 0, "checks_passed": 0,
           "checks_unreachable": 0, "failures": [], "unwind_failures": [], "covers_sat": [],
           "covers_unsat": [], "functions": [], "stubs": [], "cbmc_stats": {}, "harness_asserts": 0}
    text = ""
    try:
        text = Path(log).read_text(errors="replace")
    except OSError:
        pass
    out["stubs"] = sorted(set(re.findall(r"- Stub: (.*)", text)))
    if timed_out:
        out["reason"] = "timeout"
        return out
    data = None
    if Path(js).exists():
        try:
            data = json.loads(Path(js).read_text())
        except (OSError, ValueError):
            data = None
    if data is None or not data.get("verification_results", {}).get("results"):
        if re.search(r"error(\[E\d+\])?:", text) and "VERIFICATION" not in text:
            out["reason"] = "build/driver error"
            out["verdict"] = "ERROR"
        elif "std::bad_alloc" in text or "out of memory" in text.lower():
            out["reason"] = "out of memory"
        else:
            out["reason"] = "no result produced (crash / memory cap)"
        return out
    r = data["verification_results"]["results"][0]
    checks = r.get("checks", [])
    try:
        out["cbmc_stats"] = data["cbmc"][0]["cbmc_stats"]
    except (KeyError, IndexError):
        pass
    funcs = set()
    n_err = 0
    for c in checks:
        st = c.get("status", "")
        cat = c.get("category", "")
        desc = c.get("description", "")
        loc = c.get("location", {}) or {}
        f = loc.get("file", "") or ""
        where = f"{f}:{loc.get('line', '?')}"
        if cat == "cover":
            (out["covers_sat"] if st == "Satisfied" else out["covers_unsat"]).append(f"{desc} @{where} [{st}]")
            continue
        out["checks_total"] += 1
        if _is_repo_file(f) and st != "Unreachable":
            funcs.add(c.get("function", ""))
        if "/harness/" in f and st == "Success" and cat == "assertion" and desc.startswith("assertion failed"):
            out["harness_asserts"] += 1
        if st == "Success":
            out["checks_passed"] += 1
        elif st == "Unreachable":
            out["checks_unreachable"] += 1
        elif st == "Failure":
            rec = {"function": c.get("function", ""), "description": desc, "where": where, "category": cat}
            if ignore_re and re.search(ignore_re, rec["function"] + "|" + desc):
                out.setdefault("ignored", []).append(rec)
                continue
            if desc.startswith("unwinding assertion") or "recursion unwinding assertion" in desc:
                out["unwind_failures"].append(rec)
            elif cat == "unsupported_construct" or "is not currently supported by Kani" in desc:
                rec["unsupported"] = True
                out["failures"].append(rec)
            else:
                out["failures"].append(rec)
        elif st == "Undetermined":
            pass
        else:
            n_err += 1
    out["functions"] = sorted(funcs)
    real = [f for f in out["failures"] if not f.get("unsupported")]
    unsup = [f for f in out["failures"] if f.get("unsupported")]
    if n_err:
        out["verdict"] = "INCONCLUSIVE"
        out["reason"] = f"{n_err} checks with solver/CBMC error status (memory cap?)"
    elif real:
        out["verdict"] = "FAIL"
    elif unsup:
        out["verdict"] = "ERROR"
        out["reason"] = "unsupported construct reachable: " + unsup[0]["description"][:120]
    elif out["unwind_failures"]:
        out["verdict"] = "UNWIND"
        out["reason"] = "unwinding assertion failed (bound too small): " + out["unwind_failures"][0]["function"]
    elif r.get("status") == "Success" or out.get("ignored"):
        out["verdict"] = "PASS"
        if out.get("ignored"):
            out["reason"] = f"{len(out['ignored'])} engine-artefact check(s) ignored by the cell's documented rule"
    else:
        out["reason"] = "kani status " + str(r.get("status"))
    return out


# --------------------------------------------------------------------------
# known findings
# --------------------------------------------------------------------------

def load_known():
    p = VERIF / "known_findings.json"
    if not p.exists():
        return []
    return json.loads(p.read_text()).get("findings", [])


def finding_key(cell_name, failure):
    return f"{cell_name}|{failure['function']}|{failure['description']}"


def match_known(prop, cell_name, failure, known):
    key = finding_key(cell_name, failure)
    for k in known:
        if k.get("status") != "known" or k.get("property") != prop:
            continue
        if re.search(k["key_regex"], key):
            return k
    return None


# --------------------------------------------------------------------------
# property driver
# --------------------------------------------------------------------------

def select_cells(cells, prop, tier, seed):
    mine = [c for c in cells if prop in c.props]
    if tier == "quick":
        core = [c for c in mine if c.tier == "quick"]
        extras = [c for c in mine if c.tier == "extra"]
        if extras:
            # the seed only selects which extra cells beyond the fixed core are added
            k = seed % len(extras)
            core.append(extras[k])
            if len(extras) > 1:
                core.append(extras[(k + 1) % len(extras)])
        return core
    return mine


def blank_cell_result(c):
    return {"cell": c.name, "harness": c.harness, "wall_s": 0.0, "rc": 0, "timed_out": False, "log": "", "kind": "core",
            "tier": c.tier, "desc": c.desc, "cls": c.cls, "verdict": "INCONCLUSIVE", "reason": "", "checks_total": 0,
            "checks_passed": 0, "checks_unreachable": 0, "failures": [], "unwind_failures": [], "covers_sat": [],
            "covers_unsat": [], "functions": [], "stubs": [], "cbmc_stats": {}, "harness_asserts": 0}


def check_property(prop, tier, seed, props_meta, extra=None):
    t0 = time.time()
    cells = select_cells(load_cells(), prop, tier, seed)
    if not cells:
        print(f"ERROR property={prop} no cells registered")
        return 2
    scratch = make_scratch(prop)
    try:
        return _check(prop, tier, seed, cells, scratch, t0, props_meta, extra)
    finally:
        if not os.environ.get("VERIF_KEEP"):
            shutil.rmtree(scratch, ignore_errors=True)
        else:
            print(f"(scratch kept at {scratch})")


def _check(prop, tier, seed, cells, scratch, t0, props_meta, extra=None):
    src = scratch / "divan"
    # A harness file that no longer compiles against this tree (it names a private item the tree has renamed or
    # removed) must not take the other harness files of the property down with it: it is dropped, its cells are
    # reported INCONCLUSIVE (the check can then end with 1 if another cell finds a violation, otherwise with 2,
    # never with 0), and the rest is built again from a fresh copy.
    broken = []
    for attempt in range(4):
        try:
            attach_modules(src, attach_list(cells))
        except RuntimeError as e:
            print(f"ERROR property={prop} {e}")
            write_evidence(prop, tier, seed, [], time.time() - t0, 0, [], note=str(e))
            return 2
        ok, bdt, blog = build(scratch, cells[0].harness)
        if ok:
            break
        text = Path(blog).read_text(errors="replace")
        bad = set(re.findall(r"-->\s+(/\S+/harness/[A-Za-z0-9_]+\.rs):\d+", text))
        bad_cells = [c for c in cells if str(c.file) in bad or any(str(attach_file_of(n)[0]) in bad for n in c.needs)]
        rest = [c for c in cells if c not in bad_cells]
        if not bad_cells or not rest or attempt == 3:
            tail = "\n".join(text.splitlines()[-40:])
            print(tail)
            print(f"ERROR property={prop} scratch tree does not compile with the harness attached (see above)")
            write_evidence(prop, tier, seed, [], time.time() - t0, 0, [], note="build failed")
            return 2
        first_err = next((l for l in text.splitlines() if l.startswith("error")), "compile error")
        for c in bad_cells:
            r = blank_cell_result(c)
            r["reason"] = f"harness file {c.file.name} does not compile against this tree ({first_err[:160]})"
            broken.append(r)
            print(f"[{prop}] {c.name:<44} INCONCLUSIVE  harness file does not compile against this tree; dropped", flush=True)
        cells = rest
        shutil.rmtree(src, ignore_errors=True)
        subprocess.run(["rsync", "-a", "--exclude", "/target", "--exclude", ".git", str(REPO) + "/", str(src) + "/"],
                       check=True)
    print(f"[{prop}] built scratch tree in {bdt:.0f}s; running {len(cells)} solver queries ({tier})", flush=True)

    # schedule: heavy cells first, bounded by memory
    order = sorted(cells, key=lambda c: -c.timeout)
    results = []
    import threading
    mem_lock = threading.Condition()
    mem_used = [0]

    def job(c):
        # `mem` is an address-space cap, not a reservation: passing queries were measured at 1-7 GB resident,
        # so a third of the cap is booked against the machine's memory
        w = max(2, c.mem // 3)
        with mem_lock:
            while mem_used[0] + w > TOTAL_MEM_GB and mem_used[0] > 0:
                mem_lock.wait()
            mem_used[0] += w
        # the machine has no swap: do not start a query while less than its booked share (+ margin) is actually
        # available (other checks or builds may be running); give up waiting after 20 minutes
        waited = 0
        while mem_available_gb() < w + 8 and waited < 1200:
            time.sleep(10)
            waited += 10
        try:
            r = run_cell(scratch, c)
        finally:
            with mem_lock:
                mem_used[0] -= w
                mem_lock.notify_all()
        print(f"[{prop}] {r['cell']:<44} {r['verdict']:<12} {r['wall_s']:>7.1f}s  checks={r['checks_total']} "
              f"covers={len(r['covers_sat'])}/{len(r['covers_sat']) + len(r['covers_unsat'])} {r['reason']}", flush=True)
        return r

    with ThreadPoolExecutor(max_workers=min(MAX_PAR, len(order))) as ex:
        fut_extra = ex.submit(extra, tier) if extra else None
        results = list(ex.map(job, order))
        if fut_extra:
            for r in fut_extra.result():
                print(f"[{prop}] {r['cell']:<44} {r['verdict']:<12} {r['wall_s']:>7.1f}s  {r['reason']}", flush=True)
                results.append(r)

    results += broken
    known = load_known()
    violations = []
    known_hits = []
    inconclusive = []
    not_covered = []
    for r in results:
        v = r["verdict"]
        if v == "PASS":
            continue
        if v == "FAIL":
            real = [f for f in r["failures"] if not f.get("unsupported")]
            unknown = []
            for f in real:
                k = match_known(prop, r["cell"], f, known)
                if k:
                    known_hits.append((k, r, f))
                else:
                    unknown.append(f)
            if unknown:
                violations.append((r, unknown))
            continue
        if r["kind"] == "attempt":
            not_covered.append(r)
        else:
            inconclusive.append(r)

    rc = 0
    replay_paths = []
    if violations:
        from replay import confirm_violation
        for r, fails in violations:
            cell = next((c for c in cells if c.name == r["cell"]), None)
            if cell is None:      # non-Kani query (solver lemma): nothing to replay natively
                inconclusive.append(r)
                continue
            conf = confirm_violation(prop, cell, r, fails, scratch)
            r["replay"] = conf
            if conf["confirmed"]:
                replay_paths.append(conf["path"])
                rc = 1
            else:
                inconclusive.append(r)
                r["reason"] = "counterexample did not reproduce: " + conf.get("why", "")
    seen_known = set()
    for k, r, f in known_hits:
        if k["key_regex"] in seen_known:
            continue
        seen_known.add(k["key_regex"])
        print(f"KNOWN-FINDING: property={prop} {k['what']}")
    for r in not_covered:
        print(f"NOT-COVERED property={prop} cell={r['cell']} ({r['verdict']}: {r['reason']}) [attempt-only cell, does not affect the exit status]")
    for r in inconclusive:
        print(f"INCONCLUSIVE property={prop} cell={r['cell']} verdict={r['verdict']} reason={r['reason']}")
    wall = time.time() - t0
    write_evidence(prop, tier, seed, results, wall, len(replay_paths), [k["what"] for k, _, _ in known_hits],
                   props_meta=props_meta)
    for p in replay_paths:
        print(f"VIOLATION property={prop} replay={p}")
    if rc == 0 and inconclusive:
        rc = 2
    if rc == 0:
        n_checks = sum(r["checks_total"] for r in results)
        print(f"PASS property={prop} tier={tier} queries={len(results)} cbmc_checks={n_checks} wall={wall:.0f}s")
    return rc


# --------------------------------------------------------------------------
# evidence
# --------------------------------------------------------------------------

def write_evidence(prop, tier, seed, results, wall, violations, known_hits, props_meta=None, note=""):
    if os.environ.get("VERIF_NO_EVIDENCE"):   # developer runs against mutated copies must not overwrite evidence
        return
    ev_dir = VERIF / "evidence"
    ev_dir.mkdir(exist_ok=True)
    meta = (props_meta or {}).get(prop, {})
    decided = [r for r in results if r["verdict"] in ("PASS", "FAIL")]
    obligations = sum(r["checks_total"] for r in results)
    discharged = sum(r["checks_passed"] + r["checks_unreachable"] for r in results if r["verdict"] == "PASS")
    covers = sum(len(r["covers_sat"]) for r in results)
    # distinct non-trivial: (cell, satisfied cover) and (cell, reachable harness assertion) pairs
    distinct = sum(len(set(r["covers_sat"])) + r["harness_asserts"] for r in decided)
    functions = sorted({f for r in results for f in r["functions"]})
    samples = []
    for r in results:
        samples.append({
            "query": r["cell"], "harness": r["harness"], "what": r["desc"], "verdict": r["verdict"],
            "reason": r["reason"], "cbmc_checks": r["checks_total"], "passed": r["checks_passed"],
            "unreachable": r["checks_unreachable"],
            "failed": [f"{f['description']} in {f['function']} @{f['where']}" for f in r["failures"]][:8],
            "covers_satisfied": r["covers_sat"], "covers_unsatisfiable": r["covers_unsat"],
            "stubs": r["stubs"], "wall_s": r["wall_s"],
            "solver_s": r["cbmc_stats"].get("runtime_decision_procedure_s"),
            "symex_s": r["cbmc_stats"].get("runtime_symex_s"),
            "vccs_generated": r["cbmc_stats"].get("vccs_generated"),
            "vccs_remaining": r["cbmc_stats"].get("vccs_remaining"),
            "program_steps": r["cbmc_stats"].get("size_program_expression"),
            "core_or_attempt": r["kind"], "replay": r.get("replay"),
        })
    ev = {
        "property_id": prop,
        "tier": tier,
        "seed": seed,
        "level": "model_checking",
        "coverage": {
            "evaluations": max(1, len(results)) if results else 0,
            "distinct_nontrivial": distinct,
            "rule": "one evaluation = one CBMC/SAT query over a Kani harness compiled from /repo's current "
                    "working tree (harness = shape cell; all values inside the cell symbolic). distinct_nontrivial "
                    "counts, over decided queries, the distinct satisfied kani::cover! witnesses plus the distinct "
                    "reachable harness-level assertions proven (measured from Kani's per-check report).",
            "samples": samples,
            "obligations": obligations,
            "discharged": discharged,
            "queries_decided": len(decided),
            "queries_not_decided": [r["cell"] + ": " + r["verdict"] + " " + r["reason"] for r in results
                                    if r["verdict"] not in ("PASS", "FAIL")],
            "cover_witnesses": covers,
            "functions_encoded": functions,
            "solver_time_s": round(sum((r["cbmc_stats"].get("runtime_decision_procedure_s") or 0) for r in results), 3),
            "symex_time_s": round(sum((r["cbmc_stats"].get("runtime_symex_s") or 0) for r in results), 3),
            "bounds": meta.get("bounds", ""),
            "outside_bounds": meta.get("outside", ""),
            "engine": "kani 0.68.0 / CBMC 6.11.0 / cadical; unwinding assertions on",
            "exhaustive": False,
            "known_findings_reported": known_hits,
            "note": note,
        },
        "assumptions": meta.get("assumptions", []),
        "wall_s": round(wall, 2),
        "violations": violations,
    }
    (ev_dir / f"{prop}.json").write_text(json.dumps(ev, indent=1) + "\n")
