"""Counterexample confirmation.

A FAILED harness is never reported straight away.  The solver's assignment is
first turned into concrete values (Kani concrete playback) and

* class N harnesses: replayed natively (plain `cargo test`, dev and release
  profile) against the real functions in a scratch copy of /repo; VIOLATION is
  printed only when the native run fails as well;
* class K harnesses (need an observing Kani stub: Barrier::wait, run_action,
  _print, regex verdicts, sequentialised pool with T>=2): the failing query is
  re-decided by CBMC on a fresh build with the counterexample's values pinned by
  `kani::assume`; this validates the assignment, not the engine (stated in the
  evidence).
"""
import json
import os
import re
import shutil
import subprocess
import time
from pathlib import Path

import vk

REPLAYS = vk.VERIF / "replays"


def _extract_playback(scratch, cell, timeout=900):
    """Run Kani concrete playback (print mode) for one harness; return the generated test text or None."""
    src = scratch / "divan"
    log = scratch / f"{cell.file.stem}.{cell.fn}.playback.log"
    cmd = ["cargo", "kani", "--no-default-features", "-Z", "stubbing", "-Z", "unstable-options",
           "-Z", "concrete-playback", "--concrete-playback=print",
           "--harness", cell.harness, "--exact", "--target-dir", str(scratch / "target")]
    if not cell.reach:
        cmd += ["--no-assertion-reach-checks"]
    if cell.unwindset:
        cmd += ["--cbmc-args", "--unwindset", cell.unwindset]
    rc, to, dt = vk.run_proc(cmd, src, timeout, max(cell.mem, 16), log, vk.kani_env())
    if to:
        return None, "concrete playback timed out"
    text = Path(log).read_text(errors="replace")
    m = re.search(r"```\s*\n(.*?#\[test\].*?)```", text, re.S)
    if not m:
        m = re.search(r"(/// Test generated for harness.*?\n}\n)", text, re.S)
    if not m:
        return None, "no concrete playback test emitted"
    return m.group(1), ""


def _native_replay(scratch, cell, test_src, profile):
    """Paste the playback test into the harness module of a *fresh* scratch copy and run it natively
    with `cargo kani playback` (plain rustc codegen, real functions, no stubs)."""
    nat = scratch / f"native-{profile}"
    if nat.exists():
        shutil.rmtree(nat)
    subprocess.run(["rsync", "-a", "--exclude", "/target", "--exclude", ".git", str(vk.REPO) + "/", str(nat) + "/"],
                   check=True)
    # local copy of the harness file with the playback test appended
    hcopy = nat / f"verif_harness_{cell.file.stem}.rs"
    body = cell.file.read_text()
    # include shared helper modules by absolute path so relative #[path]s keep working
    hcopy.write_text(body + "\n" + test_src + "\n")
    vk.attach_modules(nat, [(hcopy, cell.attach)] + [vk.attach_file_of(n) for n in cell.needs])
    # attach_modules derives the module name from the file stem
    m = re.search(r"fn (kani_concrete_playback_\w+)", test_src)
    tname = m.group(1) if m else "kani_concrete_playback"
    cmd = ["cargo", "kani", "playback", "--no-default-features", "-Z", "concrete-playback", "--lib"]
    cmd += ["--", tname]
    log = scratch / f"{cell.file.stem}.{cell.fn}.native-{profile}.log"
    env = vk.kani_env()
    env["CARGO_TARGET_DIR"] = str(scratch / f"target-native-{profile}")
    if profile == "release":
        # `cargo kani playback` has no --release: give the test/dev profiles release semantics instead
        for prof in ("TEST", "DEV"):
            env[f"CARGO_PROFILE_{prof}_OPT_LEVEL"] = "3"
            env[f"CARGO_PROFILE_{prof}_DEBUG_ASSERTIONS"] = "false"
            env[f"CARGO_PROFILE_{prof}_OVERFLOW_CHECKS"] = "false"
    rc, to, dt = vk.run_proc(cmd, nat, 1200, 0, log, env)
    text = Path(log).read_text(errors="replace")
    ran = re.search(r"test result: (\w+)\. (\d+) passed; (\d+) failed", text)
    panics = re.findall(r"panicked at ([^\n]*)\n([^\n]*)", text)
    return {"profile": profile, "rc": rc, "timed_out": to, "ran": bool(ran),
            "failed": bool(ran and int(ran.group(3)) > 0),
            "panics": [f"{a} {b}".strip() for a, b in panics][:4], "wall_s": round(dt, 1),
            "log_tail": "\n".join(text.splitlines()[-15:])}


def confirm_violation(prop, cell, result, fails, scratch):
    REPLAYS.mkdir(exist_ok=True)
    path = REPLAYS / f"{prop}-{cell.file.stem}-{cell.fn}.json"
    rec = {"property": prop, "cell": cell.name, "harness": cell.harness, "class": cell.cls,
           "harness_file": str(cell.file), "attach": cell.attach,
           "failed_checks": fails, "time": time.strftime("%Y-%m-%dT%H:%M:%S"),
           "how_to_replay": f"cd {vk.VERIF} && ./bin/check --replay {path}"}
    out = {"confirmed": False, "path": str(path), "mode": "", "why": ""}
    test_src, why = (None, "")
    # class K: Kani's concrete playback on the sampling-loop harnesses needs tens of GB and minutes (measured);
    # the values are only extracted there on request
    if not os.environ.get("VERIF_NO_PLAYBACK") and (cell.cls == "N" or os.environ.get("VERIF_PLAYBACK_K")):
        test_src, why = _extract_playback(scratch, cell)
    elif cell.cls != "N":
        why = "counterexample values not extracted for class K (set VERIF_PLAYBACK_K=1)"
    rec["concrete_playback_test"] = test_src
    if cell.cls == "N" and test_src:
        runs = [_native_replay(scratch, cell, test_src, "dev"), _native_replay(scratch, cell, test_src, "release")]
        rec["native"] = runs
        if any(r["failed"] for r in runs):
            out.update(confirmed=True, mode="native replay failed in " +
                       ",".join(r["profile"] for r in runs if r["failed"]))
        elif all(r["ran"] for r in runs):
            out.update(confirmed=False, why="solver counterexample passes natively in dev and release (encoding/stub problem)")
        else:
            # native replay could not be built/run: fall back to the solver's verdict, say so
            out.update(confirmed=True, mode="solver verdict only (native replay did not build: see replay file)")
    elif cell.cls == "N":
        out.update(confirmed=True, mode=f"solver verdict only ({why})")
    else:
        out.update(confirmed=True, mode="class K: decided by CBMC on the real code with observing/environment stubs; "
                                        "no native run" + ("; counterexample values recorded" if test_src else f" ({why})"))
    rec["confirmation"] = out
    path.write_text(json.dumps(rec, indent=1) + "\n")
    return out


def replay_file(p):
    rec = json.loads(Path(p).read_text())
    cells = [c for c in vk.load_cells() if c.name == rec["cell"]]
    if not cells:
        print(f"ERROR unknown cell {rec['cell']}")
        return 2
    cell = cells[0]
    scratch = vk.make_scratch("replay")
    try:
        vk.attach_modules(scratch / "divan", vk.attach_list([cell]))
        ok, dt, blog = vk.build(scratch, cell.harness)
        if not ok:
            print(Path(blog).read_text(errors="replace")[-3000:])
            print("ERROR replay build failed")
            return 2
        r = vk.run_cell(scratch, cell)
        print(f"replay {cell.name}: {r['verdict']} {r['reason']}")
        for f in r["failures"]:
            print(f"  FAILED: {f['description']} in {f['function']} @{f['where']}")
        if r["verdict"] != "FAIL":
            return 0 if r["verdict"] == "PASS" else 2
        rc = 1
        if cell.cls == "N" and rec.get("concrete_playback_test"):
            for prof in ("dev", "release"):
                n = _native_replay(scratch, cell, rec["concrete_playback_test"], prof)
                print(f"  native {prof}: ran={n['ran']} failed={n['failed']} {n['panics'][:1]}")
        print(f"VIOLATION property={rec['property']} replay={p}")
        return rc
    finally:
        shutil.rmtree(scratch, ignore_errors=True)
