"""Per-property statements of bounds / assumptions that go into the evidence files, and special drivers."""

COMMON_TRUST = [
    "rustc MIR -> Kani 0.68 -> goto-program translation and CBMC 6.11 + cadical are trusted for PASS verdicts",
    "Kani models the dev profile (overflow checks on, debug assertions on) of the code in /repo's working tree",
]

META = {
    "C09": {
        "bounds": "1 or 2 consecutive requests; kind, Layout (size any <= isize::MAX-(align-1), align 2^0..2^12), ptr, "
                  "new_size and the inner allocator's return value (any usize incl. 0) fully symbolic; "
                  "sizes <= 2^62 in the two-request queries (tally overflow is documented as unchecked)",
        "outside": "re-entrancy / 'never allocates itself' holds by construction here (no global allocator is "
                   "installed under Kani) and is not a solver result; real TLS start-up and tear-down are modelled only "
                   "as try_current() -> None; more than 2 requests; align > 4096",
        "assumptions": COMMON_TRUST + [
            "Mock GlobalAlloc records calls in ghost state; thread-local is a plain static under Kani",
            "stub (c09_forward_no_tls only): ThreadAllocInfo::try_current -> None",
        ],
    },
    "C10": {
        "bounds": "inductive step from an arbitrary state (12 fields symbolic, representation invariant max>=current, "
                  "max>=0, all magnitudes <= 2^62) for each of tally_alloc / tally_dealloc / tally_realloc with sizes "
                  "<= 2^62-1; clear()/new() base case; sequences of 3 (thorough 5) symbolic operations with sizes "
                  "<= 2^40 against a prefix-maximum model; 2 requests through AllocProfiler<Mock> on the real "
                  "thread-local",
        "outside": "'operations on other threads never change it' is a property of thread_local!, not decidable by a "
                   "sequential engine; wrap-around beyond 2^63 (documented as unchecked upstream)",
        "assumptions": COMMON_TRUST + [
            "representation invariant is established by clear()/new() (proved as base case) and preserved by every op "
            "(proved as step); histories of any length follow by induction",
        ],
    },
}



def blank_result(name, desc):
    return {"cell": name, "harness": name, "wall_s": 0.0, "rc": 0, "timed_out": False, "log": "", "kind": "core",
            "tier": "quick", "desc": desc, "cls": "K", "verdict": "INCONCLUSIVE", "reason": "", "checks_total": 0,
            "checks_passed": 0, "checks_unreachable": 0, "failures": [], "unwind_failures": [], "covers_sat": [],
            "covers_unsat": [], "functions": [], "stubs": [], "cbmc_stats": {}, "harness_asserts": 0}


def c11_lemmas(tier):
    """z3 on the four lemmas about the specification formula; 4.8.12 and 5.1 are diffed."""
    import subprocess
    import time
    from pathlib import Path
    spec = Path(__file__).resolve().parent.parent / "spec" / "c11_lemmas.smt2"
    out = []
    answers = {}
    for z in ("z3", "z3-new"):
        r = blank_result(f"spec::c11_lemmas[{z}]",
                         "z3 on the specification formula d(a,b,f)=((b-a)*10^12) div f over u64-ranged integers: "
                         "monotone in b, additive within 1 ps, translation invariant, identity at f=10^12 (each must be unsat)")
        t0 = time.time()
        try:
            p = subprocess.run([z, "-T:300", str(spec)], capture_output=True, text=True, timeout=400)
            ans = p.stdout.split()
            err = "(error" in p.stdout or "(error" in p.stderr
        except (OSError, subprocess.TimeoutExpired) as e:
            ans, err = [], True
            r["reason"] = str(e)[:100]
        r["wall_s"] = round(time.time() - t0, 2)
        r["cbmc_stats"] = {"runtime_decision_procedure_s": r["wall_s"]}
        answers[z] = ans
        r["checks_total"] = 4
        if not err and ans == ["unsat"] * 4:
            r["verdict"] = "PASS"
            r["checks_passed"] = 4
            r["harness_asserts"] = 4
        else:
            r["reason"] = r["reason"] or f"solver answered {ans} (expected 4 x unsat)"
        out.append(r)
    return out


def _c11(prop, tier, seed):
    import vk
    return vk.check_property(prop, tier, seed, META, extra=c11_lemmas)


SPECIAL = {"C11": _c11}

# ---------------------------------------------------------------------------
# MANIFEST content
# ---------------------------------------------------------------------------

HOOKS = {
    "guard": "--cfg nvzqz_divan_verif",
    "enable": "RUSTFLAGS='--cfg nvzqz_divan_verif' (set by lib/vk.py when /repo/src/verif_seam.rs exists); "
              "harness modules are attached to a scratch copy of /repo under #[cfg(kani)], never to /repo itself",
    "baseline_off_cmd": "cd /repo && cargo test --workspace --no-fail-fast --offline",
    "source_commits": [],
    "add_only": True,
}

NOTES = ("Every check copies /repo's current working tree to a scratch directory, attaches the Kani harness modules "
         "from /verif/harness with #[path], compiles with cargo kani and lets CBMC decide each harness; exit 2 means "
         "inconclusive (timeout, memory cap, harness no longer compiles) and is never reported as success.")

_T = "bounded symbolic execution of the real functions with Kani/CBMC (SAT), harness vs reference model"

CLAIMS = {
    "C09": {
        "text": "For 1 and 2 consecutive allocator requests with fully symbolic kind, layout, pointer, new size and "
                "inner return value, CBMC proves that AllocProfiler<Mock> issues exactly the same request(s) to the "
                "wrapped allocator and returns its result bit-for-bit; every input inside the bound is covered, which "
                "no finite set of test layouts can do.",
        "note": "Trusted: Kani/CBMC translation; Mock allocator as the observer. Not decided: re-entrancy and real TLS "
                "start-up/tear-down (modelled as try_current() -> None).",
        "technique": _T,
    },
    "C10": {
        "text": "Inductive argument decided by the solver: clear()/new() establish the representation invariant and every "
                "tally operation, from an arbitrary invariant-satisfying 12-field state with arbitrary sizes, updates "
                "exactly its own counters by the exact amounts and keeps max = max(old max, new current); plus 3-5 step "
                "symbolic sequences against a prefix-maximum model and 2 requests through the public GlobalAlloc surface.",
        "note": "Trusted: Kani/CBMC. Assumes magnitudes <= 2^62 (overflow documented as unchecked). The per-thread clause "
                "(other threads never change it) is a property of thread_local! and is not decided.",
        "technique": _T + "; one inductive step from an arbitrary state",
    },
}

NOT_APPLICABLE = {
    "C06": "Broadcast over real threads (rendezvous channels, park/unpark, release/acquire): Kani has no thread model "
           "(thread::spawn, mpsc, park unsupported; catch_unwind ICEs kani-compiler 0.68) and CBMC's concurrency support "
           "is C/pthreads only; a hand-written SMT encoding of the interleavings would be a model, not the real code.",
    "C07": "Deadlock / lost wake-up / leak freedom over all schedules: same reason as C06, and a liveness property, "
           "which bounded safety checking of sequential code does not express.",
}
for _p in ("C01", "C02", "C03", "C04", "C05", "C08", "C11", "C12", "C13", "C14", "C15", "C16", "C17", "C18", "C19", "C20"):
    if _p not in CLAIMS:
        NOT_APPLICABLE[_p] = "check under construction in this session (see DESIGN.md section 3 for the plan); not claimed until its harnesses are committed"
