"""Per-property statements of bounds / assumptions that go into the evidence files, and special drivers."""

COMMON_TRUST = [
    "rustc MIR -> Kani 0.68 -> goto-program translation and CBMC 6.11 + cadical are trusted for PASS verdicts",
    "Kani models the dev profile (overflow checks on, debug assertions on) of the code in /repo's working tree",
]

LOOP_ENV = [
    "clock = ghost counter advancing by an arbitrary symbolic increment per reading (TscTimestamp::start/end stubbed): "
    "every monotone clock history within the round bound is covered",
    "timer = Tsc at 10^12 Hz with duration_since stubbed to (later - earlier): corollary of C11 (tsc::c11_tsc_floor_full "
    "+ z3 lemma identity_at_1thz)",
    "ThreadPool::par_extend stubbed to run the task for index 0..=aux sequentially on the caller (property C06 taken as an "
    "assumption; also keeps catch_unwind, which ICEs kani-compiler 0.68, out of the program)",
    "Timer::precision / Timer::bench_overheads return ghost values (precision as stated per cell, overheads zero)",
    "fences are no-ops (inline asm); RandomState::new returns zero keys (getrandom syscall); Barrier::wait stubbed to an "
    "event recorder where T >= 2",
]

META = {
    "C01": {
        "bounds": "six Bencher entry points on shapes {sized+Drop input by ref / by value, plain or sized+Drop output, "
                  "ZST+Drop input and output (fast path), no-input + sized+Drop output}; sample size 2 (entry-point cells, "
                  "concrete so that allocation sizes stay concrete) and symbolic 0..=3 (recorder called directly incl. the zero-sized fast path with an input counter, ZST path); "
                  "bench and test mode; configured thread count 3 for the _local forms; T=2 sequentialised for bench_refs; "
                  "one round",
        "outside": "real threads / interleavings (Kani has no thread model); the panic clause (Kani compiles with "
                   "panic=abort: no unwinding); sample sizes > 3; the wiring of Bencher::input_counter through the loop "
                   "(count_input closure in bench_loop_threaded: CBMC symex does not finish, attempt-only cell)",
        "assumptions": COMMON_TRUST + LOOP_ENV + [
            "values carry a ghost identity; destructors, generator, counter and benchmarked closure assert the life-cycle "
            "automaton fresh->generated->counted->used->output dropped->input dropped and the phase (before/timed/after)",
            "engine artefact ignored in bench::c01_zst_fast_path: CBMC reports 'memset destination region writeable' for "
            "the 0-byte memset of MaybeUninit::<ZST>::zeroed()",
        ],
    },
    "C02": {
        "bounds": "same cells as C01: phase monitor on every generator / counter / call / destructor event relative to the "
                  "two timestamps; allocation attribution: generator, call and destructors perform tally operations on the "
                  "real thread-local tally and the sample's ThreadAllocInfo (returned by the recorder, or observed where the "
                  "loop inspects RawSample.alloc_info) must contain exactly the calls' operations",
        "outside": "hardware reordering around the fences (fences are stubbed; only their position between the phases is "
                   "observed through the clock stubs); T > 2; allocation scripts other than one fixed-size operation per event",
        "assumptions": COMMON_TRUST + LOOP_ENV + ["AllocOpMap::is_empty stubbed to an observer that records the RawSample's "
                                                  "tallies and answers 'empty' (keeps the HashMap insert out of the formula)"],
    },
    "C03": {
        "bounds": "grid (n, s, T) in {(2,1,1), (3,2,1), (3,1,2), (2,1,3), (0,1,1), (1,0,1)} (1,1,3) [overshoot by two], (thorough adds (4,3,2), (5,1,4)); "
                  "test mode with symbolic n, s >= 1 for T in {1,2}; n = 0 / s = 0 also with symbolic min_time/max_time/skip_ext_time, in test mode and with automatic sample size; default n (unset) for the first 3 rounds; all clock "
                  "readings symbolic; the round bound is one more than the expected number of rounds so that an extra round "
                  "is a reported failure, not a cut path",
        "outside": "n = 100 run to completion (100 rounds x CBMC); attribute/CLI plumbing of n, s, T (C15); real threads",
        "assumptions": COMMON_TRUST + LOOP_ENV + ["ThreadAllocInfo::try_current -> None and AllocOpMap::is_empty -> true in "
                                                  "cells whose closures perform no allocation (their real values there)"],
    },
    "C04": {
        "bounds": "(n, s, T) in {(2,1,1), (1,2,2), (default,1,1)}; max_time and min_time each unset / 0 / symbolic u32 ns; "
                  "skip_ext_time unset / false / true; every clock reading symbolic (increments <= 10^6 ps); up to 3 rounds "
                  "(thorough 4): the executed number of rounds equals the smallest satisfying the documented rule "
                  "(continue-condition true before every executed round, false after the last)",
        "outside": "durations >= 2^32 ns; more rounds than the bound (paths needing more are cut by an assume in the pool stub)",
        "assumptions": COMMON_TRUST + LOOP_ENV,
    },
    "C05": {
        "bounds": "N in {0,1,2,3} samples (thorough 4,5) with symbolic u16 durations (ties included), sample size 1..=8, "
                  "optional constant counter; thorough: N=2 with u64 durations and one > 2^64 ps; per-input counters with "
                  "N in {2,3} (thorough 4) distinct durations and symbolic per-sample counts; slice_middle for lengths 0..=7",
        "outside": "allocation figures from a populated HashMap<u32, ThreadAllocInfo> (hashbrown + SipHash under CBMC does not "
                   "finish: attempt-only cell, reported as not covered); sample size as any u32 (attempt-only); printing",
        "assumptions": COMMON_TRUST + ["RandomState::new stubbed to zero keys (hash seeds do not influence asserted values)",
                                       "median characterised by rank counting, not by sorting; ties: any minimal sample accepted"],
    },
    "C08": {
        "bounds": "per-thread protocol conformance with Barrier::wait observed: recorder called with a Barrier for all three "
                  "loop paths, sample size symbolic 0..=2; bench_refs through the loop on T=2 sequentialised threads; the "
                  "zero-sized fast path (zero-sized input with destructor, plain output) on T=2, sample size 1..=2; "
                  "T=2, n=3, s=1 (two rounds): the k-th recorded sample's allocation record is stored under index k and "
                  "holds that thread's own bytes (HashMap::insert observed by a recording stub)",
        "outside": "the interleavings themselves and both panic clauses (no threads, no unwinding under Kani). By reading, a "
                   "panic on one of T>1 threads leaves the others blocked in Barrier::wait (hang instead of panic): this "
                   "technique cannot exhibit it, so it is neither claimed nor listed as a finding of this check",
        "assumptions": COMMON_TRUST + LOOP_ENV + ["std Barrier semantics + equal wait counts on all threads (checked per "
                                                  "thread) imply the cross-thread statement (composition argument, not decided)"],
    },
    "C09": {
        "bounds": "1 or 2 consecutive requests; kind, Layout (size any <= isize::MAX-(align-1), align 2^0..2^12), ptr, "
                  "new_size and the inner allocator's return value (any usize incl. 0) fully symbolic; "
                  "sizes <= 2^62 in the two-request queries (tally overflow is documented as unchecked)",
        "outside": "re-entrancy / 'never allocates itself' holds by construction here (no global allocator is "
                   "installed under Kani) and is not a solver result; real TLS start-up and tear-down are modelled only "
                   "as try_current() -> None; more than 2 requests; align > 4096",
        "assumptions": COMMON_TRUST + [
            "Mock GlobalAlloc records calls in ghost state; thread-local is a plain static under Kani",
            "stub (c09_forward_no_tls only): ThreadAllocInfo::try_current -> None",
        ],
    },
    "C10": {
        "bounds": "inductive step from an arbitrary state (12 fields symbolic, representation invariant max>=current, "
                  "max>=0, all magnitudes <= 2^62) for each of tally_alloc / tally_dealloc / tally_realloc with sizes "
                  "<= 2^62-1; clear()/new() base case; sequences of 3 (thorough 5) symbolic operations with sizes "
                  "<= 2^40 against a prefix-maximum model; 2 requests through AllocProfiler<Mock> on the real "
                  "thread-local",
        "outside": "'operations on other threads never change it' is a property of thread_local!, not decidable by a "
                   "sequential engine; wrap-around beyond 2^63 (documented as unchecked upstream)",
        "assumptions": COMMON_TRUST + [
            "representation invariant is established by clear()/new() (proved as base case) and preserved by every op "
            "(proved as step); histories of any length follow by induction",
        ],
    },
    "C11": {
        "bounds": "a, b, f symbolic over the full u64 range (f != 0) for TscTimestamp::duration_since (floor characterised "
                  "without division: q*f <= n < q*f+f), plus an 8-bit slice as a cheap guard; dispatch through Timestamp::duration_since; every std Duration "
                  "(secs any u64, nanos < 10^9); four z3 lemmas on the specification formula (monotone, additive within 1 ps, "
                  "translation invariant, identity at 10^12 Hz) over unbounded integers restricted to the u64 ranges",
        "outside": "the precision clause: Timer::measure_precision on a uniformly stepping stub clock is an attempt-only cell "
                   "in the thorough tier (timed out at 1800-2400 s here: reported as not covered, never as passed); OS timer (Instant)",
        "assumptions": COMMON_TRUST + ["z3 4.8.12 and z3 5.1 must both answer unsat x4; the lemmas are about the formula, the "
                                       "link to the code is the Kani equality"],
    },
    "C12": {
        "bounds": "run-time registry kernel only: EntryList push/iter for 0..=3 nodes in any push order (symbolic "
                  "permutation); shrink_array for OUT in {0,2,5,6} of IN=5; one case per args value in the driver: "
                  "run_bench_entry on 3 symbolic argument values (two may render to the same label), kept subset or full "
                  "permutation of the names: each kept name runs the value at its own position",
        "outside": "everything the #[divan::bench] / #[divan::bench_group] proc macros emit (a compiler plug-in over token "
                   "streams: no bounded symbolic encoding of 'all programs' within reach), .init_array constructors, link "
                   "order, types x consts product, module paths, display names",
        "assumptions": COMMON_TRUST,
    },
    "C13": {
        "bounds": "FilterSet::is_match with 0, 2, 3 (thorough 4) filters, each symbolic in polarity and kind; exact filters "
                  "carry a symbolic 1-byte string (2-byte whole-string cell), regex filters an arbitrary-but-fixed verdict; "
                  "SplitVec::insert for 3 and 4 symbolic inserts; run_bench_entry args arm: a symbolic pair (or full permutation) of kept argument names (any filter/sort outcome) runs exactly the arguments they name",
        "outside": "regular-expression search semantics (regex-lite trusted), the text of the display path, tree pruning "
                   "(EntryTree::retain: CBMC unrolls the recursive drop glue of removed subtrees and does not finish), clap",
        "assumptions": COMMON_TRUST + ["regex_lite::Regex::is_match stubbed to an opaque verdict keyed by a filter id smuggled "
                                       "through the never-dereferenced Regex value"],
    },
    "C14": {
        "bounds": "list_benches()/test_benches()/run_benches()/main() for every runner configuration (action, ignore flags, "
                  "sort direction symbolic) with run_action observed; run_bench_entry with Action::List on plain and args "
                  "entries, ignore at entry and runner level and RunIgnored symbolic; the real run_tree_list on "
                  "module -> group -> benchmark with ignore unset/false/true on group and benchmark, option sets present or "
                  "absent, --ignored/--include-ignored symbolic: a line is emitted iff should_run(effective ignore)",
        "outside": "the terse listing text (Kani's std turns println! into a no-op, so a printed line is observed as control "
                   "reaching the print statement: the push of the leaf's name onto the path), one line per runtime argument, "
                   "trees deeper than 3 / several siblings, feeding a path back as --exact, the body of run_action "
                   "(tree construction, sorting), nextest/clap plumbing",
        "assumptions": COMMON_TRUST + ["Divan::run_action stubbed to a recorder (list_benches cell); TreePainter methods "
                                       "stubbed to recorders (list-arm cell); String::push_str stubbed to a recorder "
                                       "(terse-list cell: the path text is not built)",
                                       "the runner-level `ignore` option is taken as unset in the terse-list cell: no public "
                                       "builder or flag sets it"],
    },
    "C15": {
        "bounds": "BenchOptions::overwrite with every field of both sides independently unset/set (u32, Duration, bool, 3 "
                  "thread lists, 4 counter kinds); three-level composition runner > benchmark > group; the real run_tree on "
                  "module -> group -> group -> benchmark with three symbolic option sets (run_bench_entry replaced by a "
                  "recorder); CounterSet/CounterCollection per kind incl. Bencher::counter; RunIgnored truth table; "
                  "IntoThreads for usize, bool, [usize; 3]; the thread list inside run_bench_entry (0 -> available parallelism, sorted, duplicates collapse: symbolic [a,b,c] in 0..=3 plus the concrete witness [0,1,3]); has_samples and time defaults",
        "outside": "clap definitions and DIVAN_* environment fallbacks; attribute macro -> BenchOptions literal (proc macro); "
                   "real std::thread::available_parallelism (stubbed to 3 in the thread-list cells)",
        "assumptions": COMMON_TRUST + ["per-loop unwinding: global bound 3 plus --unwindset for the 4-element "
                                       "KnownCounterKind::ALL.map loop in the run_tree cells"],
    },
    "C16": {
        "bounds": "cmp_bench_arg_names(Name) on digit strings of lengths (1,2), (2,2) (thorough (3,2)), negative vs positive, "
                  "negative vs negative; integer vs non-numeric word (falls through to the natural order); Location = declaration order; with_tie_breakers table; cmp_int on digit runs "
                  "(2,3), (3,1) (thorough (3,3)); natural_cmp on 1-byte strings over {0,1,9,a,<} (thorough: 'a'+digit, "
                  "'a'+2 digits vs 'a'+1 digit); EntryTree::cmp_by_attr on two benchmarks at symbolic (line, column) and benchmark vs module "
                  "under --sort kind",
        "outside": "float arguments (dec2flt), non-ASCII names, longer strings, transitivity over triples, std sort itself "
                   "(trusted to permute; a 3-element sort_by_attr cell is attempt-only), EntryConst::cmp_name through fn pointers, "
                   "EntryTree::location over several children (recursion through iterator adapters: attempt-only), address "
                   "tie-breaks (pointer order of distinct objects is undefined in CBMC's memory model)",
        "assumptions": COMMON_TRUST + ["f64::from_str stubbed to Err and natural_cmp to a nondeterministic Ordering in the "
                                       "integer-argument cells (the asserted branch returns before either is consulted)"],
    },
    "C17": {
        "bounds": "BenchArgs::runner with 3 symbolic u8 arguments and a symbolic choice of the kept name pointer: index "
                  "recovery, typed argument, TypeId rejection, the benchmark closure receives that argument, second runner "
                  "call shares the list; &str items (name buffer reuse); slice_ptr_index for element sizes 1, 4, 16; the real "
                  "run_bench_entry args arm with a symbolic pair of kept names and with all three kept in a symbolic order (driver dispatch)",
        "outside": "macro-generated glue (ToStringHelper, Arg::get), const generics and type names, String/Box<str>/Cow reuse "
                   "paths, lists longer than 3",
        "assumptions": COMMON_TRUST + ["engine artefact ignored: 'memset destination region writeable' for mem::zeroed of the "
                                       "zero-sized benchmark closure"],
    },
    "C18": {
        "bounds": "TimeScale::from_picos / picos / suffix for every u128 value; scale_value for every non-negative f64 "
                  "(incl. inf) and both byte formats; suffix tables; value/start division in the kilo bucket; "
                  "format_f64 on modelled decimal texts I.F with symbolic digits, shapes (I,F) in {(1,4),(2,3),(3,2),(4,2)} at 4 "
                  "significant figures, (1,1) at 0..=6 (thorough: (1,6),(2,5) at 0..=8, (5,2)); any 3-byte text without a point; "
                  "DisplayThroughput::fmt for each counter kind, any count < 2^53 per second, both byte formats (number printer "
                  "stubbed to \"1\")",
        "outside": "that f64::to_string prints the exact shortest decimal (std, trusted: the text handed to format_f64 is a "
                   "model of it), texts longer than 8 bytes, Display width/fill padding, throughput double rounding, durations "
                   "other than one second in the throughput cell",
        "assumptions": COMMON_TRUST + ["<f64 as ToString>::to_string stubbed: returns the modelled text (truncation cells) or \"1\" "
                                       "(throughput cell)",
                                       "Formatter::new (unstable std constructor) enabled for the scratch crate under cfg(kani) to "
                                       "call Display::fmt directly"],
    },
    "C19": {
        "bounds": "sample_size unset; (n, T, precision) in {(1,1,10 ps), (2,1,1 ps with symbolic max_time), (1,2,1000 ps)} "
                  "(thorough: symbolic precision 1..=2^20 ps, 4 rounds), (2,1,1 ps, max_time, skip_ext_time=true); SampleCollection::clear() discards time samples and allocation records (one real HashMap insert); clock increments symbolic in 0..=400 x precision; "
                  "up to 3 rounds",
        "outside": "more than 3 (4) doublings; u32 overflow of the doubled size after 32 rounds",
        "assumptions": COMMON_TRUST + LOOP_ENV,
    },
    "C20": {
        "bounds": "TreePainter with columns off: depth 3 with symbolic is_last at every level (prefix/branch glyphs, "
                  "finish_parent restores), start_leaf line under a depth-2 parent; the is_last flags the driver hands to the painter: "
                  "run_bench_entry on an args benchmark (kept pair / full permutation: only the last kept row is last, the "
                  "entry's own flag is passed through), run_tree on a 3-level chain (every level opened and closed once, an "
                  "only child is last)",
        "outside": "statistics rows, column padding / width growth, non-ASCII display width, thread-count sub-branches, the "
                   "(ignored) marker line (attempt-only cell: CBMC memory), driver order on whole trees, stdout",
        "assumptions": COMMON_TRUST + ["std::io::_print stubbed to a no-op; painter state (write_buf, current_prefix, depth) "
                                       "inspected instead"],
    },
}


def blank_result(name, desc):
    return {"cell": name, "harness": name, "wall_s": 0.0, "rc": 0, "timed_out": False, "log": "", "kind": "core",
            "tier": "quick", "desc": desc, "cls": "K", "verdict": "INCONCLUSIVE", "reason": "", "checks_total": 0,
            "checks_passed": 0, "checks_unreachable": 0, "failures": [], "unwind_failures": [], "covers_sat": [],
            "covers_unsat": [], "functions": [], "stubs": [], "cbmc_stats": {}, "harness_asserts": 0}


def c11_lemmas(tier):
    """z3 on the four lemmas about the specification formula; 4.8.12 and 5.1 are diffed."""
    import subprocess
    import time
    from pathlib import Path
    spec = Path(__file__).resolve().parent.parent / "spec" / "c11_lemmas.smt2"
    out = []
    answers = {}
    for z in ("z3", "z3-new"):
        r = blank_result(f"spec::c11_lemmas[{z}]",
                         "z3 on the specification formula d(a,b,f)=((b-a)*10^12) div f over u64-ranged integers: "
                         "monotone in b, additive within 1 ps, translation invariant, identity at f=10^12 (each must be unsat)")
        t0 = time.time()
        try:
            p = subprocess.run([z, "-T:300", str(spec)], capture_output=True, text=True, timeout=400)
            ans = p.stdout.split()
            err = "(error" in p.stdout or "(error" in p.stderr
        except (OSError, subprocess.TimeoutExpired) as e:
            ans, err = [], True
            r["reason"] = str(e)[:100]
        r["wall_s"] = round(time.time() - t0, 2)
        r["cbmc_stats"] = {"runtime_decision_procedure_s": r["wall_s"]}
        answers[z] = ans
        r["checks_total"] = 4
        if not err and ans == ["unsat"] * 4:
            r["verdict"] = "PASS"
            r["checks_passed"] = 4
            r["harness_asserts"] = 4
        else:
            r["reason"] = r["reason"] or f"solver answered {ans} (expected 4 x unsat)"
        out.append(r)
    return out


def _c11(prop, tier, seed):
    import vk
    return vk.check_property(prop, tier, seed, META, extra=c11_lemmas)


SPECIAL = {"C11": _c11}

# ---------------------------------------------------------------------------
# MANIFEST content
# ---------------------------------------------------------------------------

HOOKS = {
    "guard": "--cfg nvzqz_divan_verif",
    "enable": "RUSTFLAGS='--cfg nvzqz_divan_verif' (set by lib/vk.py when /repo/src/verif_seam.rs exists); "
              "harness modules are attached to a scratch copy of /repo under #[cfg(kani)], never to /repo itself",
    "baseline_off_cmd": "cd /repo && cargo test --workspace --no-fail-fast --offline",
    "source_commits": [],
    "add_only": True,
}

NOTES = ("Every check copies /repo's current working tree to a scratch directory, attaches the Kani harness modules "
         "from /verif/harness with #[path], compiles with cargo kani and lets CBMC decide each harness; exit 2 means "
         "inconclusive (timeout, memory cap, harness no longer compiles) and is never reported as success.")

_T = "bounded symbolic execution of the real functions with Kani/CBMC (SAT), harness vs reference model"

CLAIMS = {
    "C09": {
        "text": "For 1 and 2 consecutive allocator requests with fully symbolic kind, layout, pointer, new size and "
                "inner return value, CBMC proves that AllocProfiler<Mock> issues exactly the same request(s) to the "
                "wrapped allocator and returns its result bit-for-bit; every input inside the bound is covered, which "
                "no finite set of test layouts can do.",
        "note": "Trusted: Kani/CBMC translation; Mock allocator as the observer. Not decided: re-entrancy and real TLS "
                "start-up/tear-down (modelled as try_current() -> None).",
        "technique": _T,
    },
    "C10": {
        "text": "Inductive argument decided by the solver: clear()/new() establish the representation invariant and every "
                "tally operation, from an arbitrary invariant-satisfying 12-field state with arbitrary sizes, updates "
                "exactly its own counters by the exact amounts and keeps max = max(old max, new current); plus 3-5 step "
                "symbolic sequences against a prefix-maximum model and 2 requests through the public GlobalAlloc surface.",
        "note": "Trusted: Kani/CBMC. Assumes magnitudes <= 2^62 (overflow documented as unchecked). The per-thread clause "
                "(other threads never change it) is a property of thread_local! and is not decided.",
        "technique": _T + "; one inductive step from an arbitrary state",
    },
}


def _claim(text, note, technique=_T):
    return {"text": text, "note": note, "technique": technique}


CLAIMS.update({
    "C01": _claim(
        "Bounded model checking of the real sample recorder and sampling loop through the public Bencher entry points: "
        "every generated value carries a ghost identity and the solver proves, for all values within the stated shapes and "
        "sizes, the life cycle generated -> counted once -> used by exactly one call -> output dropped -> input dropped, on "
        "one (sequentialised) thread, with CBMC's pointer checks covering the unsafe slot handling. Single-threaded part only.",
        "Trusted: Kani/CBMC and the environment stubs listed in the evidence (clock, pool sequentialised, fences). Not "
        "decided: real interleavings, the panic clause, Bencher::input_counter wiring through the loop."),
    "C02": _claim(
        "Same queries as C01 with a phase monitor: generator and counter events must precede the start timestamp, calls lie "
        "between the two timestamps, every destructor follows the end timestamp; the ThreadAllocInfo attributed to the sample "
        "equals exactly the tally operations scripted inside the benchmarked calls (generator and destructor operations "
        "excluded), on the real thread-local tally.",
        "Trusted: Kani/CBMC, stubs as in C01; fences are observed only by position. T > 2 and hardware reordering not decided."),
    "C03": _claim(
        "The whole bench_loop_threaded is executed symbolically with every clock reading symbolic: rounds = ceil(n/T), calls = "
        "generated = s*T*ceil(n/T), stored samples = T*rounds, iter_count = samples*s on a grid of (n,s,T); zero calls for n=0 or "
        "s=0; test mode: one call per thread, nothing stored. An extra or missing round is a solver counterexample.",
        "Trusted: Kani/CBMC; threads sequentialised (C06 assumed); n=100 only for the first rounds."),
    "C04": _claim(
        "For symbolic min_time, max_time (unset/0/u32 ns), skip_ext_time and every clock history within 3-4 rounds the solver "
        "proves the loop executes exactly the smallest number of rounds allowed by the documented rule (max_time priority, "
        "elapsed from first start to latest end, or sum of slowest timed sections >= 1 ns when skipping external time).",
        "Trusted: Kani/CBMC and the environment stubs; rounds beyond the bound and durations >= 2^32 ns are outside."),
    "C05": _claim(
        "compute_stats on N symbolic samples: fastest/slowest/median/mean equal the order statistics computed by rank counting "
        "in exact integer picoseconds, orderings hold, counter figures are those of the samples that supplied the times, no "
        "panic and no NaN including N = 0 (the pinned tree panicked there: fixed, see known_findings.json).",
        "Trusted: Kani/CBMC. Allocation figures through the HashMap and arbitrary u32 sample sizes are attempt-only (not covered "
        "when they do not finish)."),
    "C08": _claim(
        "Per-thread protocol conformance decided by the solver with Barrier::wait observed: exactly three rendezvous per "
        "sample on every loop path, inputs generated before the first, tally cleared before the second, timed section after the "
        "second, snapshot and drops after the third (also on the zero-sized fast path); each sequentialised thread's sample "
        "carries only its own tally and is stored under its own sample index.",
        "Composition with std Barrier semantics is an argument, not a solver result; interleavings and both panic clauses are "
        "outside (Kani has no threads and no unwinding)."),
    "C11": _claim(
        "TscTimestamp::duration_since equals floor((b-a)*10^12/f) (0 if b<a) for every a, b, f in u64 (f != 0), proved at full "
        "width by CBMC with a division-free floor characterisation; Duration -> picoseconds exact for every Duration; "
        "monotonicity, additivity within 1 ps and translation invariance follow from z3 lemmas on the same formula.",
        "Trusted: Kani/CBMC, z3 (two versions diffed). The precision clause (measure_precision) is not decided.",
        _T + " + z3 lemmas on the specification formula"),
    "C12": _claim(
        "Registry kernel only: for up to 3 entries pushed in any order the linked list yields each exactly once and nothing "
        "else; shrink_array keeps the first OUT elements; one case per args value in the driver (also for equal labels). The "
        "proc-macro half of the property is not decidable by this family.",
        "Most of the statement (macro expansion, constructors, link order, types x consts) is outside; stated in the evidence."),
    "C13": _claim(
        "FilterSet::is_match decided for up to 3 (4) filters symbolic in polarity, kind and content with arbitrary regex "
        "verdicts: selected iff no skip filter matches and (no positive filter or one matches); exact = whole-string equality; "
        "SplitVec keeps skip filters before positive ones without loss or duplication.",
        "regex-lite semantics trusted (verdict stub); path construction and tree pruning (EntryTree::retain) not decided."),
    "C14": _claim(
        "For every runner configuration list_benches() selects a list action (the pinned tree selected Test: fixed) and the "
        "List arm of run_bench_entry never invokes the benchmark fn, the args runner or the statistics printer, painting the "
        "entry as ignored iff its effective ignore says skip. The terse lister emits a line for a benchmark iff a run with "
        "the same ignore flags executes it (ignore inherited from enclosing groups; found broken on the pinned tree: fixed).",
        "The listing text, per-argument lines and the body of run_action are not decided; see the evidence."),
    "C15": _claim(
        "Per-field resolution decided for every combination of set/unset fields: overwrite algebra, three-level composition, "
        "the real run_tree descent over two nested groups, per-kind counters incl. Bencher::counter, ignore truth table, thread "
        "list normalisation.",
        "clap/environment parsing and the proc-macro side are outside; 0 -> available parallelism inside run_bench_entry is outside."),
    "C16": _claim(
        "Comparator kernels decided on bounded strings: integer runtime arguments (incl. negatives) order by value under "
        "--sort name (the pinned tree compared a with a: fixed), declaration order under location, tie-breaker table, cmp_int = "
        "numeric comparison with leading zeros, natural_cmp antisymmetric on the bounded alphabet.",
        "Tree nodes: (line, column) order and benchmark-before-module under --sort kind. Floats, longer strings, "
        "transitivity, std sort and a module's earliest-child location are outside."),
    "C17": _claim(
        "Label -> index -> value kernel decided for 3 symbolic arguments and any kept name pointer: the case labelled L runs "
        "with the argument whose rendering is L; wrong item types are rejected; the list is built once and shared.",
        "Macro glue, longer lists and String/Cow reuse paths are outside."),
    "C18": _claim(
        "Unit / prefix selection decided over the full input domain: every u128 picosecond value and every non-negative f64 "
        "picks the largest unit not exceeding it, tables match the documentation; scaled value = value/start (kilo bucket). "
        "format_f64 on a modelled decimal text with symbolic digits keeps all integer digits and max(0, sig - int digits) "
        "decimals by truncation, strips trailing zeros and a dangling point; DisplayThroughput picks decimal prefixes for "
        "non-byte counters and the configured ones for bytes.",
        "Trusted: f64::to_string (modelled), Kani/CBMC. Display padding and double rounding of throughputs are outside."),
    "C19": _claim(
        "Tuning branch of the real loop with symbolic clock: size starts at 1 and doubles exactly while "
        "floor(slowest/precision) <= 100 (boundary value 100 witnessed by a cover), the passing round is the first recorded "
        "sample at the final size, earlier samples are discarded, max_time also spans tuning rounds.",
        "Trusted: Kani/CBMC and the environment stubs; 3-4 rounds."),
    "C20": _claim(
        "Painter kernel with columns off: for depth <= 3 and symbolic is_last flags every line is prefix ++ branch ++ name "
        "with the documented glyphs and finish_parent restores the previous prefix and depth exactly; the driver hands the "
        "painter the true position (last kept argument row / only child) on an args benchmark and a 3-level chain.",
        "Statistics rows, padding, whole-tree traversal order and stdout are outside."),
})

NOT_APPLICABLE = {
    "C06": "Broadcast over real threads (rendezvous channels, park/unpark, release/acquire): Kani has no thread model "
           "(thread::spawn, mpsc, park unsupported; catch_unwind ICEs kani-compiler 0.68) and CBMC's concurrency support "
           "is C/pthreads only; a hand-written SMT encoding of the interleavings would be a model, not the real code.",
    "C07": "Deadlock / lost wake-up / leak freedom over all schedules: same reason as C06, and a liveness property, "
           "which bounded safety checking of sequential code does not express.",
}
for _p in ("C01", "C02", "C03", "C04", "C05", "C08", "C11", "C12", "C13", "C14", "C15", "C16", "C17", "C18", "C19", "C20"):
    if _p not in CLAIMS:
        NOT_APPLICABLE[_p] = "check under construction in this session (see DESIGN.md section 3 for the plan); not claimed until its harnesses are committed"
