"""Per-property statements of bounds / assumptions that go into the evidence files, and special drivers."""

COMMON_TRUST = [
    "rustc MIR -> Kani 0.68 -> goto-program translation and CBMC 6.11 + cadical are trusted for PASS verdicts",
    "Kani models the dev profile (overflow checks on, debug assertions on) of the code in /repo's working tree",
]

META = {
    "C09": {
        "bounds": "1 or 2 consecutive requests; kind, Layout (size any <= isize::MAX-(align-1), align 2^0..2^12), ptr, "
                  "new_size and the inner allocator's return value (any usize incl. 0) fully symbolic; "
                  "sizes <= 2^62 in the two-request queries (tally overflow is documented as unchecked)",
        "outside": "re-entrancy / 'never allocates itself' holds by construction here (no global allocator is "
                   "installed under Kani) and is not a solver result; real TLS start-up and tear-down are modelled only "
                   "as try_current() -> None; more than 2 requests; align > 4096",
        "assumptions": COMMON_TRUST + [
            "Mock GlobalAlloc records calls in ghost state; thread-local is a plain static under Kani",
            "stub (c09_forward_no_tls only): ThreadAllocInfo::try_current -> None",
        ],
    },
    "C10": {
        "bounds": "inductive step from an arbitrary state (12 fields symbolic, representation invariant max>=current, "
                  "max>=0, all magnitudes <= 2^62) for each of tally_alloc / tally_dealloc / tally_realloc with sizes "
                  "<= 2^62-1; clear()/new() base case; sequences of 3 (thorough 5) symbolic operations with sizes "
                  "<= 2^40 against a prefix-maximum model; 2 requests through AllocProfiler<Mock> on the real "
                  "thread-local",
        "outside": "'operations on other threads never change it' is a property of thread_local!, not decidable by a "
                   "sequential engine; wrap-around beyond 2^63 (documented as unchecked upstream)",
        "assumptions": COMMON_TRUST + [
            "representation invariant is established by clear()/new() (proved as base case) and preserved by every op "
            "(proved as step); histories of any length follow by induction",
        ],
    },
}

SPECIAL = {}
