#!/usr/bin/env python3
"""Regenerates /verif/MANIFEST.json from lib/props.py (CLAIMS / NOT_APPLICABLE)."""
import json
import sys
from pathlib import Path

sys.path.insert(0, str(Path(__file__).resolve().parent))
import props  # noqa: E402

VERIF = Path(__file__).resolve().parent.parent


def main():
    checks = []
    for pid in sorted(props.CLAIMS):
        c = props.CLAIMS[pid]
        checks.append({
            "property_id": pid,
            "quick_cmd": f"./bin/check {pid} quick",
            "thorough_cmd": f"./bin/check {pid} thorough",
            "evidence_file": f"/verif/evidence/{pid}.json",
            "replay_cmd_template": "./bin/check --replay {path}",
            "engine": "kani-cbmc",
            "level_claimed": {
                "category": "model_checking",
                "text": c["text"],
                "design_ref": c.get("design_ref", "DESIGN.md section 3, " + pid),
            },
            "level_note": c["note"],
            "technique": c["technique"],
        })
    man = {
        "version": 1,
        "setup_cmd": "./bin/setup",
        "hooks": props.HOOKS,
        "engines": [
            {"name": "kani-cbmc", "path": "/verif/lib/vk.py",
             "serves_properties": sorted(props.CLAIMS),
             "kind_free_text": "bounded symbolic execution of the real Rust functions (Kani 0.68 -> CBMC 6.11 -> cadical SAT), "
                               "harnesses in /verif/harness attached to a scratch copy of /repo's working tree on every run"},
            {"name": "z3-lemmas", "path": "/verif/spec", "serves_properties": ["C11"],
             "kind_free_text": "z3 4.8.12 (cross-checked with z3 5.1) on three arithmetic lemmas about the C11 specification formula"},
        ],
        "checks": checks,
        "not_applicable": [{"property_id": k, "reason": v} for k, v in sorted(props.NOT_APPLICABLE.items())],
        "notes": props.NOTES,
    }
    (VERIF / "MANIFEST.json").write_text(json.dumps(man, indent=1) + "\n")
    print(f"MANIFEST.json: {len(checks)} checks, {len(man['not_applicable'])} not applicable")


if __name__ == "__main__":
    main()
