; Lemmas about the C11 *specification formula*  d(a,b,f) = ((b-a) * 10^12) div f  over mathematical integers
; restricted to the u64 ranges.  The link to the code is the Kani query tsc::c11_tsc_floor_full, which shows
; that the real TscTimestamp::duration_since equals this formula for every a <= b, f != 0 in u64.
; Each (check-sat) must answer unsat.
(set-logic ALL)
(define-fun P () Int 1000000000000)
(define-fun U64 () Int 18446744073709551615)
(define-fun d ((a Int) (b Int) (f Int)) Int (div (* (- b a) P) f))

; monotone in b
(push)
(declare-const a Int) (declare-const b1 Int) (declare-const b2 Int) (declare-const f Int)
(assert (and (<= 0 a) (<= a b1) (<= b1 b2) (<= b2 U64) (<= 1 f) (<= f U64)))
(assert (not (<= (d a b1 f) (d a b2 f))))
(check-sat)
(pop)

; additive up to one picosecond of rounding: d(a,c) - 1 <= d(a,b) + d(b,c) <= d(a,c)
(push)
(declare-const a Int) (declare-const b Int) (declare-const c Int) (declare-const f Int)
(assert (and (<= 0 a) (<= a b) (<= b c) (<= c U64) (<= 1 f) (<= f U64)))
(assert (not (and (<= (+ (d a b f) (d b c f)) (d a c f)) (<= (- (d a c f) 1) (+ (d a b f) (d b c f))))))
(check-sat)
(pop)

; independent of the absolute counter value
(push)
(declare-const a Int) (declare-const b Int) (declare-const k Int) (declare-const f Int)
(assert (and (<= 0 a) (<= a b) (<= 0 k) (<= (+ b k) U64) (<= 1 f) (<= f U64)))
(assert (not (= (d a b f) (d (+ a k) (+ b k) f))))
(check-sat)
(pop)

; identity at f = 10^12 (corollary used as a cost stub by the sampling-loop harnesses):
; any q with q*F <= n*F < q*F + F equals n
(push)
(declare-const n Int) (declare-const q Int)
(assert (and (<= 0 n) (<= n U64) (<= 0 q)))
(assert (and (<= (* q P) (* n P)) (< (* n P) (+ (* q P) P))))
(assert (not (= q n)))
(check-sat)
(pop)
