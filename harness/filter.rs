// Kani harnesses for src/config/filter.rs (C13: filter-set semantics).
// @attach src/config/filter.rs
use super::*;

struct Ghost {
    magic: u64,
    verdicts: [bool; 4],
    asked: [u8; 4],
}
static mut G: Ghost = Ghost { magic: 0xD1FA_57A7_1C00_1301, verdicts: [false; 4], asked: [0; 4] };

/// Opaque regex verdict: the filter's identity is smuggled through the first word of a zeroed, never
/// dereferenced, never dropped `Regex` value; each regex has an arbitrary but fixed verdict for the path.
fn regex_is_match_stub(r: &Regex, _s: &str) -> bool {
    let id: usize = unsafe { *(r as *const Regex as *const usize) };
    unsafe {
        assert!(id >= 1 && id <= 4);
        G.asked[id - 1] += 1;
        G.verdicts[id - 1]
    }
}

fn fake_regex(id: usize) -> Regex {
    assert!(std::mem::size_of::<Regex>() >= std::mem::size_of::<usize>());
    let mut r = std::mem::MaybeUninit::<Regex>::zeroed();
    unsafe {
        *(r.as_mut_ptr() as *mut usize) = id;
        r.assume_init()
    }
}

fn run<const N: usize>() {
    let kinds: [bool; 4] = [kani::any(), kani::any(), kani::any(), kani::any()]; // true = Regex
    let incl: [bool; 4] = [kani::any(), kani::any(), kani::any(), kani::any()];
    let bytes: [u8; 4] = [kani::any(), kani::any(), kani::any(), kani::any()];
    let path_b: u8 = kani::any();
    kani::assume(path_b < 128 && bytes[0] < 128 && bytes[1] < 128 && bytes[2] < 128 && bytes[3] < 128);
    unsafe { G.verdicts = [kani::any(), kani::any(), kani::any(), kani::any()]; }
    let mut set = FilterSet::default();
    let mut i = 0;
    while i < N {
        let f = if kinds[i] {
            Filter::Regex(fake_regex(i + 1))
        } else {
            Filter::Exact(unsafe { String::from_utf8_unchecked(vec![bytes[i]]) })
        };
        if incl[i] { set.include(f); } else { set.exclude(f); }
        i += 1;
    }
    let pb = [path_b];
    let path = unsafe { std::str::from_utf8_unchecked(&pb) };
    let got = set.is_match(path);
    // model: not (exists skip filter matching) and (no positive filter or exists positive filter matching)
    let mut any_skip = false;
    let mut any_pos = false;
    let mut has_pos = false;
    let mut i = 0;
    while i < N {
        let m = if kinds[i] { unsafe { G.verdicts[i] } } else { bytes[i] == path_b };
        if incl[i] {
            has_pos = true;
            any_pos |= m;
        } else {
            any_skip |= m;
        }
        i += 1;
    }
    assert_eq!(got, !any_skip && (!has_pos || any_pos));
    unsafe { assert_eq!(G.magic, 0xD1FA_57A7_1C00_1301); }
    kani::cover!(got && has_pos);
    kani::cover!(!got && any_pos && any_skip);
    kani::cover!(!got && has_pos && !any_pos && !any_skip);
    std::mem::forget(set);
}

// @cell props=C13 tier=quick kind=core timeout=600 mem=10 cls=K
// @desc no filter: every path is selected
#[kani::proof]
#[kani::unwind(5)]
#[kani::stub(regex_lite::Regex::is_match, regex_is_match_stub)]
fn c13_filterset_n0() {
    let set = FilterSet::default();
    let b: u8 = kani::any();
    kani::assume(b < 128);
    let pb = [b];
    assert!(set.is_match(unsafe { std::str::from_utf8_unchecked(&pb) }));
    kani::cover!(b == b'a');
    std::mem::forget(set);
}

// @cell props=C13 tier=quick kind=core timeout=600 mem=10 cls=K
// @desc 2 filters, each symbolic in polarity (skip/positive) and kind (exact with a symbolic 1-byte string, or
// @desc regex with an arbitrary verdict), symbolic 1-byte path: selected iff no skip matches and (no positive or one matches)
#[kani::proof]
#[kani::unwind(5)]
#[kani::stub(regex_lite::Regex::is_match, regex_is_match_stub)]
fn c13_filterset_n2() {
    run::<2>()
}

// @cell props=C13 tier=quick kind=core timeout=900 mem=10 cls=K
// @desc 3 filters
#[kani::proof]
#[kani::unwind(6)]
#[kani::stub(regex_lite::Regex::is_match, regex_is_match_stub)]
fn c13_filterset_n3() {
    run::<3>()
}

// @cell props=C13 tier=thorough kind=core timeout=2400 mem=12 cls=K
// @desc 4 filters
#[kani::proof]
#[kani::unwind(7)]
#[kani::stub(regex_lite::Regex::is_match, regex_is_match_stub)]
fn c13_filterset_n4() {
    run::<4>()
}

// @cell props=C13 tier=quick kind=core timeout=600 mem=10 cls=N
// @desc exact filters compare whole strings: 2-byte filter vs 1- or 2-byte path (symbolic bytes) matches iff equal
// @desc (no prefix / substring matching with --exact)
#[kani::proof]
#[kani::unwind(5)]
fn c13_exact_is_whole_string() {
    let f: [u8; 2] = [kani::any(), kani::any()];
    let p: [u8; 2] = [kani::any(), kani::any()];
    kani::assume(f[0] < 128 && f[1] < 128 && p[0] < 128 && p[1] < 128);
    let plen: usize = kani::any();
    kani::assume(plen == 1 || plen == 2);
    let filter = Filter::Exact(unsafe { String::from_utf8_unchecked(vec![f[0], f[1]]) });
    let path = unsafe { std::str::from_utf8_unchecked(&p[..plen]) };
    let got = filter.is_match(path);
    assert_eq!(got, plen == 2 && f[0] == p[0] && f[1] == p[1]);
    kani::cover!(got);
    kani::cover!(!got && plen == 1 && f[0] == p[0]);
    std::mem::forget(filter);
}
