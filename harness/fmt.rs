// Kani harnesses for src/util/fmt.rs (C18: scale selection).
// @attach src/util/fmt.rs
use super::*;

// @cell props=C18 tier=quick kind=core timeout=900 mem=10 cls=N
// @desc scale_value for every non-negative finite or infinite f64 and both byte formats: the chosen prefix is the
// @desc largest whose start (1000^k or 1024^k) does not exceed the value (none below 1, none for inf)
#[kani::proof]
#[kani::unwind(8)]
fn c18_scale_value() {
    let v: f64 = kani::any();
    kani::assume(!v.is_nan() && v >= 0.0);
    let binary: bool = kani::any();
    let fmt = if binary { BytesFormat::Binary } else { BytesFormat::Decimal };
    let (scaled, scale) = scale_value(v, fmt);
    let base: f64 = if binary { 1024.0 } else { 1000.0 };
    let idx = scale as usize;
    // starts[k] = base^k, exactly representable
    let mut start = 1.0f64;
    let mut k = 0;
    while k < idx {
        start *= base;
        k += 1;
    }
    if v.is_infinite() {
        assert!(idx == 0);
    } else {
        if idx > 0 {
            assert!(start <= v);
        }
        if idx < 5 {
            assert!(v < start * base);
        }
    }
    let _ = scaled;
    kani::cover!(idx == 5);
    kani::cover!(idx == 0 && v < 1.0);
    kani::cover!(v.is_infinite());
}

// @cell props=C18 tier=quick kind=core timeout=600 mem=10 cls=N
// @desc suffix tables: for every scale and format the suffix is the documented one (B, KB/KiB .. PB/PiB, and the
// @desc /s, Hz, item/s, char/s throughput forms) - checked through first/last byte and length
#[kani::proof]
#[kani::unwind(8)]
fn c18_suffix_tables() {
    let k: u8 = kani::any();
    kani::assume(k < 6);
    let scale = [Scale::One, Scale::Kilo, Scale::Mega, Scale::Giga, Scale::Tera, Scale::Peta][k as usize];
    let letter = [b'B', b'K', b'M', b'G', b'T', b'P'][k as usize];
    let dec = scale.suffix(ScaleFormat::Bytes(BytesFormat::Decimal));
    let bin = scale.suffix(ScaleFormat::Bytes(BytesFormat::Binary));
    assert!(dec.as_bytes()[0] == letter && bin.as_bytes()[0] == letter);
    assert!(dec.len() == if k == 0 { 1 } else { 2 });
    assert!(bin.len() == if k == 0 { 1 } else { 3 });
    assert!(*dec.as_bytes().last().unwrap() == b'B' && *bin.as_bytes().last().unwrap() == b'B');
    if k > 0 {
        assert!(bin.as_bytes()[1] == b'i');
    }
    let dt = scale.suffix(ScaleFormat::BytesThroughput(BytesFormat::Decimal));
    let bt = scale.suffix(ScaleFormat::BytesThroughput(BytesFormat::Binary));
    assert!(dt.len() == dec.len() + 2 && bt.len() == bin.len() + 2);
    assert!(dt.as_bytes()[0] == letter && bt.as_bytes()[0] == letter);
    assert!(dt.as_bytes()[dt.len() - 2] == b'/' && dt.as_bytes()[dt.len() - 1] == b's');
    let hz = scale.suffix(ScaleFormat::CyclesThroughput);
    assert!(hz.len() == if k == 0 { 2 } else { 3 } && hz.as_bytes()[hz.len() - 2] == b'H');
    let it = scale.suffix(ScaleFormat::ItemsThroughput);
    let ch = scale.suffix(ScaleFormat::CharsThroughput);
    assert!(it.len() == if k == 0 { 6 } else { 7 } && ch.len() == it.len());
    if k > 0 {
        assert!(hz.as_bytes()[0] == letter && it.as_bytes()[0] == letter && ch.as_bytes()[0] == letter);
    }
    assert!(ScaleFormat::CharsThroughput.bytes_format() as usize == BytesFormat::Decimal as usize);
    kani::cover!(k == 5);
}

fn scaled_in_bucket<const K: usize>() {
    let v: f64 = kani::any();
    let binary: bool = kani::any();
    let fmt = if binary { BytesFormat::Binary } else { BytesFormat::Decimal };
    let base: f64 = if binary { 1024.0 } else { 1000.0 };
    let mut start = 1.0f64;
    let mut k = 0;
    while k < K {
        start *= base;
        k += 1;
    }
    kani::assume(v >= start && v < start * base);
    let (scaled, scale) = scale_value(v, fmt);
    assert!(scale as usize == K);
    assert!(scaled == v / start);
    assert!(scaled >= 1.0 && scaled < base);
    kani::cover!(binary && scaled > 1023.0);
}

// @cell props=C18 tier=quick kind=core timeout=900 mem=10 cls=N
// @desc values in the kilo bucket [base, base^2): scaled value == value / base (IEEE division), in [1, base)
#[kani::proof]
#[kani::unwind(8)]
fn c18_scale_division_kilo() {
    scaled_in_bucket::<1>()
}

// @cell props=C18 tier=thorough kind=attempt timeout=1800 mem=10 cls=N
// @desc values in the giga bucket
#[kani::proof]
#[kani::unwind(8)]
fn c18_scale_division_giga() {
    scaled_in_bucket::<3>()
}
