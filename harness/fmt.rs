// Kani harnesses for src/util/fmt.rs (C18: scale selection).
// @attach src/util/fmt.rs
use super::*;

// @cell props=C18 tier=quick kind=core timeout=900 mem=10 cls=N
// @desc scale_value for every non-negative finite or infinite f64 and both byte formats: the chosen prefix is the
// @desc largest whose start (1000^k or 1024^k) does not exceed the value (none below 1, none for inf)
#[kani::proof]
#[kani::unwind(8)]
fn c18_scale_value() {
    let v: f64 = kani::any();
    kani::assume(!v.is_nan() && v >= 0.0);
    let binary: bool = kani::any();
    let fmt = if binary { BytesFormat::Binary } else { BytesFormat::Decimal };
    let (scaled, scale) = scale_value(v, fmt);
    let base: f64 = if binary { 1024.0 } else { 1000.0 };
    let idx = scale as usize;
    // starts[k] = base^k, exactly representable
    let mut start = 1.0f64;
    let mut k = 0;
    while k < idx {
        start *= base;
        k += 1;
    }
    if v.is_infinite() {
        assert!(idx == 0);
    } else {
        if idx > 0 {
            assert!(start <= v);
        }
        if idx < 5 {
            assert!(v < start * base);
        }
    }
    let _ = scaled;
    kani::cover!(idx == 5);
    kani::cover!(idx == 0 && v < 1.0);
    kani::cover!(v.is_infinite());
}

// @cell props=C18 tier=quick kind=core timeout=600 mem=10 cls=N
// @desc suffix tables: for every scale and format the suffix is the documented one (B, KB/KiB .. PB/PiB, and the
// @desc /s, Hz, item/s, char/s throughput forms) - checked through first/last byte and length
#[kani::proof]
#[kani::unwind(8)]
fn c18_suffix_tables() {
    let k: u8 = kani::any();
    kani::assume(k < 6);
    let scale = [Scale::One, Scale::Kilo, Scale::Mega, Scale::Giga, Scale::Tera, Scale::Peta][k as usize];
    let letter = [b'B', b'K', b'M', b'G', b'T', b'P'][k as usize];
    let dec = scale.suffix(ScaleFormat::Bytes(BytesFormat::Decimal));
    let bin = scale.suffix(ScaleFormat::Bytes(BytesFormat::Binary));
    assert!(dec.as_bytes()[0] == letter && bin.as_bytes()[0] == letter);
    assert!(dec.len() == if k == 0 { 1 } else { 2 });
    assert!(bin.len() == if k == 0 { 1 } else { 3 });
    assert!(*dec.as_bytes().last().unwrap() == b'B' && *bin.as_bytes().last().unwrap() == b'B');
    if k > 0 {
        assert!(bin.as_bytes()[1] == b'i');
    }
    let dt = scale.suffix(ScaleFormat::BytesThroughput(BytesFormat::Decimal));
    let bt = scale.suffix(ScaleFormat::BytesThroughput(BytesFormat::Binary));
    assert!(dt.len() == dec.len() + 2 && bt.len() == bin.len() + 2);
    assert!(dt.as_bytes()[0] == letter && bt.as_bytes()[0] == letter);
    assert!(dt.as_bytes()[dt.len() - 2] == b'/' && dt.as_bytes()[dt.len() - 1] == b's');
    let hz = scale.suffix(ScaleFormat::CyclesThroughput);
    assert!(hz.len() == if k == 0 { 2 } else { 3 } && hz.as_bytes()[hz.len() - 2] == b'H');
    let it = scale.suffix(ScaleFormat::ItemsThroughput);
    let ch = scale.suffix(ScaleFormat::CharsThroughput);
    assert!(it.len() == if k == 0 { 6 } else { 7 } && ch.len() == it.len());
    if k > 0 {
        assert!(hz.as_bytes()[0] == letter && it.as_bytes()[0] == letter && ch.as_bytes()[0] == letter);
    }
    kani::cover!(k == 5);
}

fn scaled_in_bucket<const K: usize>() {
    let v: f64 = kani::any();
    let binary: bool = kani::any();
    let fmt = if binary { BytesFormat::Binary } else { BytesFormat::Decimal };
    let base: f64 = if binary { 1024.0 } else { 1000.0 };
    let mut start = 1.0f64;
    let mut k = 0;
    while k < K {
        start *= base;
        k += 1;
    }
    kani::assume(v >= start && v < start * base);
    let (scaled, scale) = scale_value(v, fmt);
    assert!(scale as usize == K);
    assert!(scaled == v / start);
    assert!(scaled >= 1.0 && scaled < base);
    kani::cover!(binary && scaled > 1023.0);
}

// @cell props=C18 tier=quick kind=core timeout=900 mem=10 cls=N
// @desc values in the kilo bucket [base, base^2): scaled value == value / base (IEEE division), in [1, base)
#[kani::proof]
#[kani::unwind(8)]
fn c18_scale_division_kilo() {
    scaled_in_bucket::<1>()
}

// @cell props=C18 tier=thorough kind=attempt timeout=900 mem=10 cls=N
// @desc values in the giga bucket
#[kani::proof]
#[kani::unwind(8)]
fn c18_scale_division_giga() {
    scaled_in_bucket::<3>()
}

// ---- digit truncation on a modelled decimal string (f64::to_string stubbed: std's shortest round-trip
// ---- printing is trusted to print k/10^4 as its exact decimal expansion)

struct SGhost {
    magic: u64,
    len: usize,
    bytes: [u8; 8],
}
static mut SG: SGhost = SGhost { magic: 0xD1FA_57A7_1C00_1801, len: 0, bytes: [0; 8] };

fn to_string_model<T: std::fmt::Display + ?Sized>(_v: &T) -> String {
    unsafe {
        let mut s = String::with_capacity(8);
        let mut i = 0;
        while i < SG.len {
            s.push(SG.bytes[i] as char);
            i += 1;
        }
        s
    }
}

/// "I.FFFF" with one integer digit (a lone 0 included) and `F` fraction digits, all digits symbolic.
fn truncation<const F: usize>(sig: usize) {
    let int_d: u8 = kani::any();
    kani::assume(int_d < 10);
    let mut frac = [0u8; F];
    let mut i = 0;
    while i < F {
        let d: u8 = kani::any();
        kani::assume(d < 10);
        frac[i] = d;
        i += 1;
    }
    // shortest round-trip never prints a trailing zero in the fraction
    kani::assume(F == 0 || frac[F - 1] != 0);
    unsafe {
        SG.bytes[0] = b'0' + int_d;
        if F > 0 {
            SG.bytes[1] = b'.';
        }
        let mut i = 0;
        while i < F {
            SG.bytes[2 + i] = b'0' + frac[i];
            i += 1;
        }
        SG.len = if F > 0 { 2 + F } else { 1 };
    }
    let out = format_f64(0.0, sig);
    let o = out.as_bytes();
    // expected: integer digit kept; max(0, sig - 1) fraction digits kept by truncation; trailing zeros and a
    // dangling point stripped
    let keep = if sig > 1 { sig - 1 } else { 0 };
    let keep = if keep < F { keep } else { F };
    let mut last = 0; // number of fraction digits remaining after stripping zeros
    let mut i = 0;
    while i < keep {
        if frac[i] != 0 {
            last = i + 1;
        }
        i += 1;
    }
    assert!(o[0] == b'0' + int_d);
    if last == 0 {
        assert!(o.len() == 1);
    } else {
        assert!(o.len() == 2 + last);
        assert!(o[1] == b'.');
        let mut i = 0;
        while i < last {
            assert!(o[2 + i] == b'0' + frac[i]);
            i += 1;
        }
    }
    unsafe { assert!(SG.magic == 0xD1FA_57A7_1C00_1801); }
    kani::cover!(last == 0 && F > 0);
    kani::cover!(last == keep && keep > 0);
    kani::cover!(int_d == 0 && last > 0);
}

// @cell props=C18 tier=thorough kind=attempt timeout=600 mem=28 cls=K
// @desc format_f64 at 4 significant figures on the modelled string "d.dddd" (one integer digit - a lone 0 counts -
// @desc and four symbolic fraction digits): exactly 3 decimals are kept, by truncation, trailing zeros stripped
#[kani::proof]
#[kani::unwind(12)]
#[kani::stub(<f64 as std::string::ToString>::to_string, to_string_model)]
fn c18_truncation_1_4() {
    truncation::<4>(4)
}


// ---- throughput: the prefix of non-byte counters is always decimal, bytes follow the configured format

fn to_string_one<T: std::fmt::Display + ?Sized>(_v: &T) -> String {
    // the number itself is not the subject here (digit printing is outside the claim): always "1"
    let mut s = String::with_capacity(1);
    s.push('1');
    s
}

// @cell props=C18 tier=quick kind=attempt timeout=1200 mem=20 cls=K
// @desc DisplayThroughput through the real Display impl (write! into a String; the number printer stubbed to "1"):
// @desc for a symbolic counter kind, count (u32), duration (u32 ps, non-zero) and byte format, the unit printed is the
// @desc one of the largest 1000^k (items, chars, cycles - whatever byte format is configured) resp. 1000^k or 1024^k
// @desc (bytes, as configured) not exceeding the rate
#[kani::proof]
#[kani::unwind(12)]
#[kani::stub(<f64 as std::string::ToString>::to_string, to_string_one)]
fn c18_throughput_unit() {
    use std::fmt::Write;
    let k: u8 = kani::any();
    kani::assume(k < 4);
    let kind = KnownCounterKind::ALL[k as usize];
    let count: u32 = kani::any();
    let picos: u32 = kani::any();
    kani::assume(picos != 0 && count != 0);
    let binary: bool = kani::any();
    let bf = if binary { BytesFormat::Binary } else { BytesFormat::Decimal };
    let counter = AnyCounter::known(kind, count as u64);
    let dt = DisplayThroughput { counter: &counter, picos: picos as f64, bytes_format: bf };
    let mut out = String::new();
    write!(&mut out, "{}", dt).unwrap();
    // expected unit
    let rate = count as f64 * (1e12 / picos as f64);
    let is_bytes = matches!(kind, KnownCounterKind::Bytes);
    let eff = if is_bytes { bf } else { BytesFormat::Decimal };
    let (_, scale) = scale_value(rate, eff);
    let fmt = match kind {
        KnownCounterKind::Bytes => ScaleFormat::BytesThroughput(bf),
        KnownCounterKind::Chars => ScaleFormat::CharsThroughput,
        KnownCounterKind::Cycles => ScaleFormat::CyclesThroughput,
        KnownCounterKind::Items => ScaleFormat::ItemsThroughput,
    };
    let suffix = scale.suffix(fmt);
    let o = out.as_bytes();
    assert!(o.len() == 2 + suffix.len());
    assert!(o[0] == b'1' && o[1] == b' ');
    let mism = o[2] != suffix.as_bytes()[0];
    kani::cover!(mism && count < 1000 && picos < 1000);
    kani::cover!(mism && count < 100000 && picos < 100000);
    kani::cover!(mism && scale as usize == 0);
    kani::cover!(mism && scale as usize == 1);
    kani::cover!(mism && scale as usize == 2);
    kani::cover!(mism && scale as usize == 3);
    kani::cover!(mism && scale as usize == 4);
    kani::cover!(mism && scale as usize == 5);
    kani::cover!(mism && o[2] == b'K');
    kani::cover!(mism && o[2] == b'M');
    kani::cover!(mism && o[2] == b'i');
    kani::cover!(mism && o[2] == b'B');
    kani::cover!(mism && !is_bytes && !binary && count == 1);
    let mut i = 0;
    while i < suffix.len() {
        let same = o[2 + i] == suffix.as_bytes()[i];
        assert!(same);
        i += 1;
    }
    kani::cover!(!is_bytes && binary && scale as usize == 1);
    kani::cover!(is_bytes && binary && scale as usize == 2);
}

// @cell props=DBG tier=thorough kind=attempt timeout=600 mem=20 cls=K
// @desc debug
#[kani::proof]
#[kani::unwind(12)]
#[kani::stub(<f64 as std::string::ToString>::to_string, to_string_one)]
fn dbg_throughput() {
    use std::fmt::Write;
    let count: u32 = kani::any();
    let picos: u32 = kani::any();
    kani::assume(count >= 1 && count <= 3 && picos >= 1 && picos <= 3);
    let counter = AnyCounter::known(KnownCounterKind::Items, count as u64);
    let dt = DisplayThroughput { counter: &counter, picos: picos as f64, bytes_format: BytesFormat::Decimal };
    let mut out = String::new();
    write!(&mut out, "{}", dt).unwrap();
    let o = out.as_bytes();
    let rate = count as f64 * (1e12 / picos as f64);
    let (_, scale) = scale_value(rate, BytesFormat::Decimal);
    let suffix = scale.suffix(ScaleFormat::ItemsThroughput);
    assert!(o.len() == 2 + suffix.len(), "len");
    if count == 1 && picos == 1 { assert!(o[2] == suffix.as_bytes()[0], "1/1"); }
    if count == 1 && picos == 2 { assert!(o[2] == suffix.as_bytes()[0], "1/2"); }
    if count == 1 && picos == 3 { assert!(o[2] == suffix.as_bytes()[0], "1/3"); }
    if count == 2 && picos == 1 { assert!(o[2] == suffix.as_bytes()[0], "2/1"); }
    if count == 3 && picos == 1 { assert!(o[2] == suffix.as_bytes()[0], "3/1"); }
    if count == 3 && picos == 2 { assert!(o[2] == suffix.as_bytes()[0], "3/2"); }
    if count == 1 && picos == 2 { assert!(o[2] == b'G', "1/2 is G"); }
    if count == 1 && picos == 2 { assert!(o[2] == b'T', "1/2 is T"); }
    kani::cover!(true);
}
