// Kani harnesses for src/util/fmt.rs (C18: scale selection).
// @attach src/util/fmt.rs
use super::*;

// @cell props=C18 tier=quick kind=core timeout=900 mem=10 cls=N
// @desc scale_value for every non-negative finite or infinite f64 and both byte formats: the chosen prefix is the
// @desc largest whose start (1000^k or 1024^k) does not exceed the value (none below 1, none for inf)
#[kani::proof]
#[kani::unwind(8)]
fn c18_scale_value() {
    let v: f64 = kani::any();
    kani::assume(!v.is_nan() && v >= 0.0);
    let binary: bool = kani::any();
    let fmt = if binary { BytesFormat::Binary } else { BytesFormat::Decimal };
    let (scaled, scale) = scale_value(v, fmt);
    let base: f64 = if binary { 1024.0 } else { 1000.0 };
    let idx = scale as usize;
    // starts[k] = base^k, exactly representable
    let mut start = 1.0f64;
    let mut k = 0;
    while k < idx {
        start *= base;
        k += 1;
    }
    if v.is_infinite() {
        assert!(idx == 0);
    } else {
        if idx > 0 {
            assert!(start <= v);
        }
        if idx < 5 {
            assert!(v < start * base);
        }
    }
    let _ = scaled;
    kani::cover!(idx == 5);
    kani::cover!(idx == 0 && v < 1.0);
    kani::cover!(v.is_infinite());
}

// @cell props=C18 tier=quick kind=core timeout=600 mem=10 cls=N
// @desc suffix tables: for every scale and format the suffix is the documented one (B, KB/KiB .. PB/PiB, and the
// @desc /s, Hz, item/s, char/s throughput forms) - checked through first/last byte and length
#[kani::proof]
#[kani::unwind(8)]
fn c18_suffix_tables() {
    let k: u8 = kani::any();
    kani::assume(k < 6);
    let scale = [Scale::One, Scale::Kilo, Scale::Mega, Scale::Giga, Scale::Tera, Scale::Peta][k as usize];
    let letter = [b'B', b'K', b'M', b'G', b'T', b'P'][k as usize];
    let dec = scale.suffix(ScaleFormat::Bytes(BytesFormat::Decimal));
    let bin = scale.suffix(ScaleFormat::Bytes(BytesFormat::Binary));
    assert!(dec.as_bytes()[0] == letter && bin.as_bytes()[0] == letter);
    assert!(dec.len() == if k == 0 { 1 } else { 2 });
    assert!(bin.len() == if k == 0 { 1 } else { 3 });
    assert!(*dec.as_bytes().last().unwrap() == b'B' && *bin.as_bytes().last().unwrap() == b'B');
    if k > 0 {
        assert!(bin.as_bytes()[1] == b'i');
    }
    let dt = scale.suffix(ScaleFormat::BytesThroughput(BytesFormat::Decimal));
    let bt = scale.suffix(ScaleFormat::BytesThroughput(BytesFormat::Binary));
    assert!(dt.len() == dec.len() + 2 && bt.len() == bin.len() + 2);
    assert!(dt.as_bytes()[0] == letter && bt.as_bytes()[0] == letter);
    assert!(dt.as_bytes()[dt.len() - 2] == b'/' && dt.as_bytes()[dt.len() - 1] == b's');
    let hz = scale.suffix(ScaleFormat::CyclesThroughput);
    assert!(hz.len() == if k == 0 { 2 } else { 3 } && hz.as_bytes()[hz.len() - 2] == b'H');
    let it = scale.suffix(ScaleFormat::ItemsThroughput);
    let ch = scale.suffix(ScaleFormat::CharsThroughput);
    assert!(it.len() == if k == 0 { 6 } else { 7 } && ch.len() == it.len());
    if k > 0 {
        assert!(hz.as_bytes()[0] == letter && it.as_bytes()[0] == letter && ch.as_bytes()[0] == letter);
    }
    kani::cover!(k == 5);
}

fn scaled_in_bucket<const K: usize>() {
    let v: f64 = kani::any();
    let binary: bool = kani::any();
    let fmt = if binary { BytesFormat::Binary } else { BytesFormat::Decimal };
    let base: f64 = if binary { 1024.0 } else { 1000.0 };
    let mut start = 1.0f64;
    let mut k = 0;
    while k < K {
        start *= base;
        k += 1;
    }
    kani::assume(v >= start && v < start * base);
    let (scaled, scale) = scale_value(v, fmt);
    assert!(scale as usize == K);
    assert!(scaled == v / start);
    assert!(scaled >= 1.0 && scaled < base);
    kani::cover!(binary && scaled > 1023.0);
}

// @cell props=C18 tier=quick kind=core timeout=900 mem=10 cls=N
// @desc values in the kilo bucket [base, base^2): scaled value == value / base (IEEE division), in [1, base)
#[kani::proof]
#[kani::unwind(8)]
fn c18_scale_division_kilo() {
    scaled_in_bucket::<1>()
}

// @cell props=C18 tier=thorough kind=attempt timeout=900 mem=10 cls=N
// @desc values in the giga bucket
#[kani::proof]
#[kani::unwind(8)]
fn c18_scale_division_giga() {
    scaled_in_bucket::<3>()
}

// ---- digit truncation on a modelled decimal string (f64::to_string stubbed: std's shortest round-trip
// ---- printing is trusted to print k/10^4 as its exact decimal expansion)

struct SGhost {
    magic: u64,
    len: usize,
    bytes: [u8; 8],
}
static mut SG: SGhost = SGhost { magic: 0xD1FA_57A7_1C00_1801, len: 0, bytes: [0; 8] };

/// The modelled `f64::to_string`: the harness has put `L` ASCII bytes into the ghost; the String is built from an
/// array of exactly `L` bytes, so its length is a constant for CBMC (a string grown by `push(char)` has a symbolic
/// length - `len_utf8` of a symbolic char - and everything after it explodes).
fn to_string_fixed<const L: usize, T: std::fmt::Display + ?Sized>(_v: &T) -> String {
    unsafe {
        let mut a = [0u8; L];
        let mut i = 0;
        while i < L {
            a[i] = SG.bytes[i];
            i += 1;
        }
        String::from_utf8_unchecked(Vec::from(a))
    }
}
fn to_string_l1<T: std::fmt::Display + ?Sized>(v: &T) -> String { to_string_fixed::<1, T>(v) }
fn to_string_l2<T: std::fmt::Display + ?Sized>(v: &T) -> String { to_string_fixed::<2, T>(v) }
fn to_string_l3<T: std::fmt::Display + ?Sized>(v: &T) -> String { to_string_fixed::<3, T>(v) }
fn to_string_l4<T: std::fmt::Display + ?Sized>(v: &T) -> String { to_string_fixed::<4, T>(v) }
fn to_string_l5<T: std::fmt::Display + ?Sized>(v: &T) -> String { to_string_fixed::<5, T>(v) }
fn to_string_l6<T: std::fmt::Display + ?Sized>(v: &T) -> String { to_string_fixed::<6, T>(v) }
fn to_string_l7<T: std::fmt::Display + ?Sized>(v: &T) -> String { to_string_fixed::<7, T>(v) }
fn to_string_l8<T: std::fmt::Display + ?Sized>(v: &T) -> String { to_string_fixed::<8, T>(v) }

/// Modelled decimal "I..I.F..F" with `I` integer digits (no leading zero unless I == 1) and `F` fraction digits
/// (no trailing zero: shortest round-trip printing never prints one), all digits symbolic; `sig` significant figures.
/// Expected: all integer digits kept; max(0, sig - I) fraction digits kept by truncation; trailing zeros and a
/// dangling point stripped.
fn truncation<const I: usize, const F: usize>(sig: usize) {
    let mut int = [0u8; I];
    let mut i = 0;
    while i < I {
        let d: u8 = kani::any();
        kani::assume(d < 10);
        int[i] = d;
        i += 1;
    }
    kani::assume(I == 1 || int[0] != 0);
    let mut frac = [0u8; F];
    let mut i = 0;
    while i < F {
        let d: u8 = kani::any();
        kani::assume(d < 10);
        frac[i] = d;
        i += 1;
    }
    kani::assume(F == 0 || frac[F - 1] != 0);
    unsafe {
        let mut i = 0;
        while i < I {
            SG.bytes[i] = b'0' + int[i];
            i += 1;
        }
        if F > 0 {
            SG.bytes[I] = b'.';
        }
        let mut i = 0;
        while i < F {
            SG.bytes[I + 1 + i] = b'0' + frac[i];
            i += 1;
        }
        SG.len = if F > 0 { I + 1 + F } else { I };
    }
    // the numeric value handed to format_f64 is consistent with the modelled text as far as the code may look at
    // it (sign, < 1): an arbitrary non-negative finite f64 that is < 1 iff the integer part is a lone 0
    let val: f64 = kani::any();
    kani::assume(val.is_finite() && val >= 0.0);
    let lone_zero = I == 1 && int[0] == 0;
    kani::assume((val < 1.0) == lone_zero);
    let out = format_f64(val, sig);
    let o = out.as_bytes();
    let keep = if sig > I { sig - I } else { 0 };
    let keep = if keep < F { keep } else { F };
    let mut last = 0; // fraction digits remaining after stripping zeros
    let mut i = 0;
    while i < keep {
        if frac[i] != 0 {
            last = i + 1;
        }
        i += 1;
    }
    let mut i = 0;
    while i < I {
        assert!(o[i] == b'0' + int[i]);
        i += 1;
    }
    if last == 0 {
        assert!(o.len() == I);
    } else {
        assert!(o.len() == I + 1 + last);
        assert!(o[I] == b'.');
        let mut i = 0;
        while i < last {
            assert!(o[I + 1 + i] == b'0' + frac[i]);
            i += 1;
        }
    }
    unsafe { assert!(SG.magic == 0xD1FA_57A7_1C00_1801); }
    // witnesses, guarded by what the shape (I, F, sig) can produce at all
    kani::cover!((F == 0 || keep >= F) || last == 0);
    kani::cover!(keep == 0 || last == keep);
    kani::cover!((I != 1 || keep == 0) || (lone_zero && last > 0));
    kani::cover!((keep == 0 || keep >= F) || last < keep);
    std::mem::forget(out);
}

// @cell props=C18 tier=quick kind=core timeout=900 mem=16 cls=K
// @desc format_f64 at 4 significant figures on the modelled text "d.dddd" (one integer digit - a lone 0 counts - and
// @desc four symbolic fraction digits): exactly 3 decimals are kept, by truncation, trailing zeros and a dangling
// @desc point stripped
#[kani::proof]
#[kani::unwind(9)]
#[kani::stub(<f64 as std::string::ToString>::to_string, to_string_l6)]
fn c18_truncation_1_4() {
    truncation::<1, 4>(4)
}

// @cell props=C18 tier=quick kind=core timeout=900 mem=16 cls=K
// @desc the same on "dd.ddd" (two integer digits): 2 decimals kept
#[kani::proof]
#[kani::unwind(9)]
#[kani::stub(<f64 as std::string::ToString>::to_string, to_string_l6)]
fn c18_truncation_2_3() {
    truncation::<2, 3>(4)
}

// @cell props=C18 tier=quick kind=core timeout=900 mem=16 cls=K
// @desc "dddd.dd" (four integer digits = all significant figures): no decimals kept, point dropped
#[kani::proof]
#[kani::unwind(9)]
#[kani::stub(<f64 as std::string::ToString>::to_string, to_string_l7)]
fn c18_truncation_4_2() {
    truncation::<4, 2>(4)
}

// @cell props=C18 tier=quick kind=core timeout=900 mem=16 cls=K
// @desc "ddd.dd" (three integer digits): exactly 1 decimal kept
#[kani::proof]
#[kani::unwind(9)]
#[kani::stub(<f64 as std::string::ToString>::to_string, to_string_l6)]
fn c18_truncation_3_2() {
    truncation::<3, 2>(4)
}

// @cell props=C18 tier=quick kind=core timeout=900 mem=16 cls=K
// @desc "d.d" at a symbolic number of significant figures 0..=6
#[kani::proof]
#[kani::unwind(9)]
#[kani::stub(<f64 as std::string::ToString>::to_string, to_string_l3)]
fn c18_truncation_1_1_any_sig() {
    let sig: usize = kani::any();
    kani::assume(sig <= 6);
    truncation::<1, 1>(sig)
}

// @cell props=C18 tier=quick kind=core timeout=900 mem=16 cls=K
// @desc a text of three arbitrary ASCII bytes without a point ("inf", "NaN", "123") is returned unchanged at any
// @desc precision
#[kani::proof]
#[kani::unwind(9)]
#[kani::stub(<f64 as std::string::ToString>::to_string, to_string_l3)]
fn c18_no_point_unchanged() {
    let b: [u8; 3] = [kani::any(), kani::any(), kani::any()];
    kani::assume(b[0] < 128 && b[1] < 128 && b[2] < 128);
    kani::assume(b[0] != b'.' && b[1] != b'.' && b[2] != b'.');
    unsafe {
        SG.bytes[0] = b[0];
        SG.bytes[1] = b[1];
        SG.bytes[2] = b[2];
    }
    let sig: usize = kani::any();
    let val: f64 = kani::any();
    let out = format_f64(val, sig);
    let o = out.as_bytes();
    assert!(o.len() == 3);
    assert!(o[0] == b[0] && o[1] == b[1] && o[2] == b[2]);
    kani::cover!(b[0] == b'i' && b[1] == b'n' && b[2] == b'f');
    std::mem::forget(out);
}

// @cell props=C18 tier=thorough kind=core timeout=1800 mem=20 cls=K
// @desc "d.dddddd" (six fraction digits) at a symbolic number of significant figures 0..=8
#[kani::proof]
#[kani::unwind(10)]
#[kani::stub(<f64 as std::string::ToString>::to_string, to_string_l8)]
fn c18_truncation_1_6_any_sig() {
    let sig: usize = kani::any();
    kani::assume(sig <= 8);
    truncation::<1, 6>(sig)
}

// @cell props=C18 tier=thorough kind=core timeout=1800 mem=20 cls=K
// @desc "ddddd.dd" (five integer digits, more than the 4 significant figures): integer digits kept in full
#[kani::proof]
#[kani::unwind(10)]
#[kani::stub(<f64 as std::string::ToString>::to_string, to_string_l8)]
fn c18_truncation_5_2() {
    truncation::<5, 2>(4)
}

// @cell props=C18 tier=thorough kind=core timeout=1800 mem=20 cls=K
// @desc "dd.ddddd" at a symbolic number of significant figures 0..=8
#[kani::proof]
#[kani::unwind(10)]
#[kani::stub(<f64 as std::string::ToString>::to_string, to_string_l8)]
fn c18_truncation_2_5_any_sig() {
    let sig: usize = kani::any();
    kani::assume(sig <= 8);
    truncation::<2, 5>(sig)
}

// ---- throughput: the prefix of non-byte counters is always decimal, bytes follow the configured format

fn to_string_one<T: std::fmt::Display + ?Sized>(_v: &T) -> String {
    // the number itself is not the subject here (digit printing is outside the claim): always "1"
    let mut s = String::with_capacity(1);
    s.push('1');
    s
}

/// Calls the real `<DisplayThroughput as Display>::fmt` with a default `Formatter` writing into a String.
/// (`write!`/`format!` would go through `core::fmt::write`, whose type-erased argument fn pointers CBMC cannot
/// resolve cheaply; `Formatter::new` is the unstable constructor, enabled for the scratch crate under cfg(kani).)
fn show_throughput(dt: &DisplayThroughput) -> String {
    let mut out = String::new();
    let mut f = core::fmt::Formatter::new(&mut out, core::fmt::FormattingOptions::new());
    let r = fmt::Display::fmt(dt, &mut f);
    assert!(r.is_ok());
    out
}

fn throughput_unit<const K: usize>() {
    // the counter kind is concrete per instance: with a suffix pointer ranging over *different* suffix tables CBMC's
    // byte-copy model of `push_str` returns unconstrained bytes (engine imprecision, met as a false alarm while
    // building this cell); count and byte format are symbolic
    let kind = KnownCounterKind::ALL[K];
    let count: u64 = kani::any();
    kani::assume(count != 0 && count < (1 << 53));
    let binary: bool = kani::any();
    let bf = if binary { BytesFormat::Binary } else { BytesFormat::Decimal };
    let counter = AnyCounter::known(kind, count as _);
    let dt = DisplayThroughput { counter: &counter, picos: 1e12, bytes_format: bf };
    let out = show_throughput(&dt);
    // expected unit
    let rate = count as f64;
    let is_bytes = matches!(kind, KnownCounterKind::Bytes);
    let eff = if is_bytes { bf } else { BytesFormat::Decimal };
    let (_, scale) = scale_value(rate, eff);
    let fmt = match kind {
        KnownCounterKind::Bytes => ScaleFormat::BytesThroughput(bf),
        KnownCounterKind::Chars => ScaleFormat::CharsThroughput,
        KnownCounterKind::Cycles => ScaleFormat::CyclesThroughput,
        KnownCounterKind::Items => ScaleFormat::ItemsThroughput,
    };
    let suffix = scale.suffix(fmt);
    let o = out.as_bytes();
    assert!(o.len() == 2 + suffix.len());
    assert!(o[0] == b'1' && o[1] == b' ');
    let mut i = 0;
    while i < suffix.len() {
        let same = o[2 + i] == suffix.as_bytes()[i];
        assert!(same);
        i += 1;
    }
    kani::cover!(is_bytes || (binary && scale as usize == 1 && count < 1024));
    kani::cover!(!is_bytes || (binary && scale as usize == 0 && count >= 1000));
    kani::cover!(scale as usize == 5);
    std::mem::forget(out);
}

// @cell props=C18 tier=quick kind=core timeout=1200 mem=20 cls=K
// @desc DisplayThroughput through the real Display impl (default Formatter into a String; the number printer stubbed
// @desc to "1"): for each counter kind, any count below 2^53 (over exactly one second) and either configured byte
// @desc format, the unit printed is the one of the largest 1000^k (items, chars, cycles - whatever byte format is
// @desc configured) resp. 1000^k or 1024^k (bytes, as configured) not exceeding the rate
#[kani::proof]
#[kani::unwind(12)]
#[kani::stub(<f64 as std::string::ToString>::to_string, to_string_one)]
fn c18_throughput_unit() {
    throughput_unit::<0>();
    throughput_unit::<1>();
    throughput_unit::<2>();
    throughput_unit::<3>();
}
