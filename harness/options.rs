// Kani harnesses for src/benchmark/options.rs (C15: per-field option resolution).
// @attach src/benchmark/options.rs
use super::*;
use crate::counter::{BytesCount, CharsCount, CyclesCount, ItemsCount, KnownCounterKind};

fn any_opt_u32() -> Option<u32> {
    if kani::any() { Some(kani::any()) } else { None }
}
fn any_opt_bool() -> Option<bool> {
    if kani::any() { Some(kani::any()) } else { None }
}
fn any_opt_dur() -> Option<Duration> {
    if kani::any() {
        let n: u32 = kani::any();
        kani::assume(n < 1_000_000_000);
        Some(Duration::new(kani::any(), n))
    } else {
        None
    }
}
static T1: [usize; 1] = [3];
static T2: [usize; 2] = [1, 2];
static T3: [usize; 1] = [0];
fn any_threads() -> Option<Cow<'static, [usize]>> {
    let k: u8 = kani::any();
    kani::assume(k < 4);
    match k {
        0 => None,
        1 => Some(Cow::Borrowed(&T1[..])),
        2 => Some(Cow::Borrowed(&T2[..])),
        _ => Some(Cow::Borrowed(&T3[..])),
    }
}
fn any_counters() -> CounterSet {
    let mut c = CounterSet::default();
    if kani::any() { c.insert(BytesCount::new(kani::any::<u64>())); }
    if kani::any() { c.insert(CharsCount::new(kani::any::<u64>())); }
    if kani::any() { c.insert(CyclesCount::new(kani::any::<u64>())); }
    if kani::any() { c.insert(ItemsCount::new(kani::any::<u64>())); }
    c
}
pub(crate) fn any_options() -> BenchOptions<'static> {
    BenchOptions {
        sample_count: any_opt_u32(),
        sample_size: any_opt_u32(),
        threads: any_threads(),
        counters: any_counters(),
        min_time: any_opt_dur(),
        max_time: any_opt_dur(),
        skip_ext_time: any_opt_bool(),
        ignore: any_opt_bool(),
    }
}

fn threads_id(o: &BenchOptions) -> Option<(*const usize, usize)> {
    o.threads.as_deref().map(|t| (t.as_ptr(), t.len()))
}

/// `r` is field-by-field `hi`, else `lo`.
pub(crate) fn assert_fieldwise(r: &BenchOptions, hi: &BenchOptions, lo: &BenchOptions) {
    assert_eq!(r.sample_count, hi.sample_count.or(lo.sample_count));
    assert_eq!(r.sample_size, hi.sample_size.or(lo.sample_size));
    assert_eq!(r.min_time, hi.min_time.or(lo.min_time));
    assert_eq!(r.max_time, hi.max_time.or(lo.max_time));
    assert_eq!(r.skip_ext_time, hi.skip_ext_time.or(lo.skip_ext_time));
    assert_eq!(r.ignore, hi.ignore.or(lo.ignore));
    assert_eq!(threads_id(r), threads_id(hi).or(threads_id(lo)));
    for k in KnownCounterKind::ALL {
        assert_eq!(r.counters.get(k), hi.counters.get(k).or(lo.counters.get(k)));
    }
}

// @cell props=C15 tier=quick kind=core timeout=600 mem=8 cls=N
// @desc a.overwrite(b) with every field of a and b independently unset/set (u32, Duration, bool, 3 distinct
// @desc thread lists, 4 counter kinds with symbolic values): each result field is a's value if set, else b's
#[kani::proof]
#[kani::unwind(5)]
fn c15_overwrite_fieldwise() {
    let a = any_options();
    let b = any_options();
    let r = a.overwrite(&b);
    assert_fieldwise(&r, &a, &b);
    kani::cover!(a.sample_count.is_none() && b.sample_count.is_some() && a.sample_size.is_some() && b.sample_size.is_none());
    kani::cover!(a.ignore == Some(false) && b.ignore == Some(true));
}

// @cell props=C15 tier=quick kind=core timeout=900 mem=10 cls=N
// @desc three levels (runner over benchmark over group) composed as the driver does:
// @desc runner.overwrite(&bench.overwrite(&group)) resolves every field independently with priority runner > bench > group
#[kani::proof]
#[kani::unwind(5)]
fn c15_overwrite_three_levels() {
    let runner = any_options();
    let bench = any_options();
    let group = any_options();
    let entry = bench.overwrite(&group);
    let eff = runner.overwrite(&entry);
    assert_eq!(eff.sample_count, runner.sample_count.or(bench.sample_count).or(group.sample_count));
    assert_eq!(eff.sample_size, runner.sample_size.or(bench.sample_size).or(group.sample_size));
    assert_eq!(eff.min_time, runner.min_time.or(bench.min_time).or(group.min_time));
    assert_eq!(eff.max_time, runner.max_time.or(bench.max_time).or(group.max_time));
    assert_eq!(eff.skip_ext_time, runner.skip_ext_time.or(bench.skip_ext_time).or(group.skip_ext_time));
    assert_eq!(eff.ignore, runner.ignore.or(bench.ignore).or(group.ignore));
    assert_eq!(threads_id(&eff), threads_id(&runner).or(threads_id(&bench)).or(threads_id(&group)));
    for k in KnownCounterKind::ALL {
        assert_eq!(eff.counters.get(k), runner.counters.get(k).or(bench.counters.get(k)).or(group.counters.get(k)));
    }
    kani::cover!(runner.sample_count.is_none() && bench.sample_count.is_none() && group.sample_count.is_some()
        && runner.max_time.is_some());
}

// @cell props=C15,C03 tier=quick kind=core timeout=300 mem=8 cls=N
// @desc has_samples() is false exactly when sample_count == Some(0) or sample_size == Some(0);
// @desc min_time()/max_time() defaults are 0 and u128::MAX picoseconds
#[kani::proof]
fn c15_has_samples_and_time_defaults() {
    let o = BenchOptions { sample_count: any_opt_u32(), sample_size: any_opt_u32(), ..Default::default() };
    assert_eq!(o.has_samples(), !(o.sample_count == Some(0) || o.sample_size == Some(0)));
    assert_eq!(o.min_time().picos, 0);
    assert_eq!(o.max_time().picos, u128::MAX);
    let ns: u32 = kani::any();
    let o2 = BenchOptions {
        min_time: Some(Duration::from_nanos(ns as u64)),
        max_time: Some(Duration::from_nanos(ns as u64)),
        ..Default::default()
    };
    assert_eq!(o2.min_time().picos, ns as u128 * 1000);
    assert_eq!(o2.max_time().picos, ns as u128 * 1000);
    kani::cover!(!o.has_samples() && o.sample_count == Some(5));
}
