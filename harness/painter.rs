// Kani harnesses for src/tree_painter.rs (C20: glyph / prefix kernel, columns off).
// @attach src/tree_painter.rs
use super::*;

fn print_stub(_args: std::fmt::Arguments<'_>) {}

fn bar(not_last: bool) -> &'static str {
    if not_last { "│  " } else { "   " }
}
fn branch(last: bool) -> &'static str {
    if last { "╰─ " } else { "├─ " }
}

// @cell props=C20 tier=quick kind=core timeout=1500 mem=12 cls=K
// @desc depth 3 with symbolic is_last at every level: each line is prefix ++ branch ++ name with branch "" at the
// @desc top, "├─ " for non-last and "╰─ " for last children; prefix = "│  " under ancestors with later siblings,
// @desc three spaces under last ones; finish_parent restores prefix and depth exactly
#[kani::proof]
#[kani::unwind(24)]
#[kani::stub(std::io::_print, print_stub)]
fn c20_prefix_depth3() {
    let mut p = TreePainter::new(0, [0; TreeColumn::COUNT]);
    let l0: bool = kani::any();
    let l1: bool = kani::any();
    let l2: bool = kani::any();
    p.start_parent("a", l0);
    assert!(p.write_buf == "a");
    assert!(p.current_prefix.is_empty());
    p.start_parent("b", l1);
    assert!(p.write_buf == if l1 { "╰─ b" } else { "├─ b" });
    assert!(p.current_prefix == bar(!l1));
    p.start_parent("c", l2);
    let exp = match (l1, l2) {
        (false, false) => "│  ├─ c",
        (false, true) => "│  ╰─ c",
        (true, false) => "   ├─ c",
        (true, true) => "   ╰─ c",
    };
    assert!(p.write_buf == exp);
    assert!(p.depth == 3);
    p.finish_parent();
    assert!(p.current_prefix == bar(!l1));
    assert!(p.depth == 2);
    p.finish_parent();
    assert!(p.current_prefix.is_empty());
    p.finish_parent();
    assert!(p.depth == 0 && p.current_prefix.is_empty());
    kani::cover!(l1 && !l2);
    kani::cover!(!l1 && l2);
}

// @cell props=C20 tier=quick kind=core timeout=1500 mem=12 cls=K
// @desc a leaf under a depth-2 parent: the start_leaf line is prefix ++ branch ++ name; painter state (prefix, depth)
// @desc is untouched by leaves
#[kani::proof]
#[kani::unwind(24)]
#[kani::stub(std::io::_print, print_stub)]
fn c20_leaf_line() {
    let mut p = TreePainter::new(0, [0; TreeColumn::COUNT]);
    let l1: bool = kani::any();
    let ll: bool = kani::any();
    p.start_parent("a", false);
    p.start_parent("b", l1);
    p.start_leaf("x", ll);
    let exp = match (l1, ll) {
        (false, false) => "│  ├─ x",
        (false, true) => "│  ╰─ x",
        (true, false) => "   ├─ x",
        (true, true) => "   ╰─ x",
    };
    assert!(p.write_buf == exp);
    p.finish_empty_leaf();
    assert!(p.depth == 2 && p.current_prefix == bar(!l1));
    p.finish_parent();
    p.finish_parent();
    assert!(p.depth == 0 && p.current_prefix.is_empty());
    kani::cover!(l1 && ll);
    kani::cover!(!l1 && !ll);
}

// @cell props=C20 tier=thorough kind=attempt timeout=600 mem=16 cls=K
// @desc an ignored leaf under a depth-1 parent: prefix ++ branch ++ name, two spaces, "(ignored)"
#[kani::proof]
#[kani::unwind(34)]
#[kani::stub(std::io::_print, print_stub)]
fn c20_ignored_leaf_line() {
    let mut p = TreePainter::new(0, [0; TreeColumn::COUNT]);
    let ll: bool = kani::any();
    p.start_parent("a", false);
    p.ignore_leaf("y", ll);
    assert!(p.write_buf == if ll { "╰─ y  (ignored)" } else { "├─ y  (ignored)" });
    assert!(p.depth == 1 && p.current_prefix.is_empty());
    kani::cover!(ll);
}
