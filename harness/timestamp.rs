// Kani harnesses for src/time/timestamp/mod.rs (C11: tagged timestamp dispatch).
// @attach src/time/timestamp/mod.rs
use super::*;
use std::num::NonZeroU64;

struct Ghost {
    magic: u64,
    this: u64,
    earlier: u64,
    freq: u64,
    calls: u32,
    ret: u128,
}
static mut G: Ghost = Ghost { magic: 0xD1FA_57A7_1C00_1101, this: 0, earlier: 0, freq: 0, calls: 0, ret: 0 };

fn tsc_dur_recorder(this: TscTimestamp, earlier: TscTimestamp, frequency: NonZeroU64) -> FineDuration {
    unsafe {
        G.this = this.value;
        G.earlier = earlier.value;
        G.freq = frequency.get();
        G.calls += 1;
        FineDuration { picos: G.ret }
    }
}

// @cell props=C11 tier=quick kind=core timeout=600 mem=8 cls=K
// @desc dispatch: Timestamp::duration_since on two Tsc readings with Timer::Tsc{f} calls the TSC conversion
// @desc exactly once with (later, earlier, f) in that order and returns its result unchanged (conversion
// @desc itself decided at full width in tsc::c11_tsc_floor_full)
#[kani::proof]
#[kani::stub(crate::time::timestamp::tsc::TscTimestamp::duration_since, tsc_dur_recorder)]
fn c11_timestamp_tsc_dispatch() {
    let a: u64 = kani::any();
    let b: u64 = kani::any();
    let f: u64 = kani::any();
    kani::assume(f != 0);
    let ret: u128 = kani::any();
    unsafe { G.ret = ret };
    let timer = Timer::Tsc { frequency: NonZeroU64::new(f).unwrap() };
    let got = Timestamp::Tsc(TscTimestamp { value: b })
        .duration_since(Timestamp::Tsc(TscTimestamp { value: a }), timer);
    unsafe {
        assert_eq!(G.calls, 1);
        assert_eq!(G.this, b);
        assert_eq!(G.earlier, a);
        assert_eq!(G.freq, f);
        assert_eq!(got.picos, ret);
        assert_eq!(G.magic, 0xD1FA_57A7_1C00_1101);
    }
    kani::cover!(b < a);
}
