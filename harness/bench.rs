// Kani harnesses for the sampling loop in src/benchmark/mod.rs (C01, C02, C03, C04, C08, C19).
// @attach src/benchmark/mod.rs
//
// Environment (all stubs are listed in DESIGN.md section 2.3 and in the evidence):
//   * clock: TscTimestamp::start/end return the next value of a ghost counter that advances by an arbitrary
//     (symbolic) increment per reading -> every clock history is covered, monotone non-decreasing per thread;
//     with T >= 2 each sequentialised thread's time line restarts at the round's base reading, so timestamps of
//     different threads are unordered among each other (as in a parallel round);
//   * timer = Tsc at 10^12 Hz, duration_since = later - earlier (corollary of C11, see spec/c11_lemmas.smt2);
//   * thread pool: par_extend runs the task for index 0..=aux sequentially on the caller (property C06 taken
//     as an assumption; also keeps catch_unwind, which ICEs kani-compiler, out of the program);
//   * Timer::precision / bench_overheads return ghost values instead of measuring the real clock;
//   * fences are no-ops (inline asm), RandomState::new returns zero keys (getrandom syscall).
use super::*;
use crate::{
    config::Action,
    counter::ItemsCount,
    time::{Timer, TscTimestamp},
    util::thread::ThreadPool,
};
use std::num::NonZeroU64;

const MAGIC: u64 = 0xD1FA_57A7_1C00_0301;
const R: usize = 4; // rounds logged

struct Ghost {
    magic: u64,
    clock: u64,
    max_inc: u64,
    // loop observation
    rounds: u32,      // par_extend calls
    round_cut: u32,   // paths needing more rounds than this are outside the bound
    nts: u32,         // clock readings so far
    first: u64,       // very first reading (initial_start when external time is counted)
    cur_start: u64,
    max_end: [u64; R],
    slowest: [u64; R],
    starts_in_round: [u8; R],
    ends_in_round: [u8; R],
    calls: u32,
    gens: u32,
    precision: u128,
    // per-sample monitor (C01/C02/C08)
    phase: u8,        // 0 = before start timestamp, 1 = timed, 2 = after end timestamp
    next: u8,         // next value id
    sample_first: u8, // first id of the current sample
    sample_calls: u8,
    sample_counted: u8,
    expect_size: u8,  // expected calls per sample (0xFF = unknown)
    expect_gen: u8,   // expected generator calls per sample before the start timestamp (0xFF = unknown)
    state: [u8; 8],   // life cycle per id
    cur_thread: u8,
    owner: [u8; 8],   // sequentialised thread index that generated the id
    waits: u8,
    tasks: u32,
    zst_out_drops: u32,
    zst_in_drops: u32,
    gen_alloc: usize,
    drop_alloc: usize,
    tls_dirty_at_wait2: bool,
    obs_samples: u32,      // RawSamples whose tallies were inspected by the loop
    obs_alloc_count: u64,  // tallies of the last inspected RawSample
    obs_alloc_size: u64,
    obs_dealloc_count: u64,
    obs_other: u64,
}

static mut G: Ghost = Ghost {
    magic: MAGIC,
    clock: 0,
    max_inc: 1_000_000,
    rounds: 0,
    round_cut: 3,
    nts: 0,
    first: 0,
    cur_start: 0,
    max_end: [0; R],
    slowest: [0; R],
    starts_in_round: [0; R],
    ends_in_round: [0; R],
    calls: 0,
    gens: 0,
    precision: 1,
    phase: 0,
    next: 0,
    sample_first: 0,
    sample_calls: 0,
    sample_counted: 0,
    expect_size: 0xFF,
    expect_gen: 0xFF,
    state: [0; 8],
    cur_thread: 0,
    owner: [0; 8],
    waits: 0,
    tasks: 0,
    zst_out_drops: 0,
    zst_in_drops: 0,
    gen_alloc: 0,
    drop_alloc: 0,
    tls_dirty_at_wait2: false,
    obs_samples: 0,
    obs_alloc_count: 0,
    obs_alloc_size: 0,
    obs_dealloc_count: 0,
    obs_other: 0,
};

// ------------------------------------------------------------------ stubs

fn tick() -> u64 {
    unsafe {
        let adv: u64 = kani::any();
        kani::assume(adv <= G.max_inc);
        G.clock += adv;
        G.clock
    }
}

fn ts_start() -> TscTimestamp {
    let v = tick();
    unsafe {
        if G.nts == 0 {
            G.first = v;
        }
        G.nts += 1;
        G.cur_start = v;
        let r = G.rounds as usize;
        if r >= 1 && r <= R {
            G.starts_in_round[r - 1] += 1;
            // monitor: a start timestamp inside a sample
            assert!(G.phase == 0, "start timestamp taken twice / inside a timed section");
            if G.expect_gen != 0xFF {
                assert!(G.next - G.sample_first == G.expect_gen, "inputs still being generated at start timestamp");
                if C.has_counter {
                    assert!(G.sample_counted == G.expect_gen, "inputs not all counted at start timestamp");
                }
            }
            assert!(G.sample_calls == 0, "benchmarked function ran before the start timestamp");
            G.phase = 1;
        }
    }
    TscTimestamp { value: v }
}

fn ts_end() -> TscTimestamp {
    let v = tick();
    unsafe {
        G.nts += 1;
        let r = G.rounds as usize;
        if r >= 1 && r <= R {
            G.ends_in_round[r - 1] += 1;
            let d = v - G.cur_start;
            if v > G.max_end[r - 1] {
                G.max_end[r - 1] = v;
            }
            if d > G.slowest[r - 1] {
                G.slowest[r - 1] = d;
            }
            assert!(G.phase == 1, "end timestamp without start");
            if G.expect_size != 0xFF {
                assert!(G.sample_calls == G.expect_size, "end timestamp before all calls of the sample");
            }
            G.phase = 2;
        }
    }
    TscTimestamp { value: v }
}

fn dur_stub(this: TscTimestamp, earlier: TscTimestamp, _f: NonZeroU64) -> FineDuration {
    FineDuration { picos: this.value.checked_sub(earlier.value).unwrap_or(0) as u128 }
}
fn nop() {}
fn rs_stub() -> std::hash::RandomState {
    unsafe { std::mem::zeroed() }
}
fn overheads_zero(_t: Timer) -> &'static crate::time::TimedOverhead {
    &crate::time::TimedOverhead::ZERO
}
fn precision_ghost(_t: Timer) -> FineDuration {
    FineDuration { picos: unsafe { G.precision } }
}
fn try_current_none() -> Option<std::ptr::NonNull<ThreadAllocInfo>> {
    None
}
fn tallies_empty(_t: &crate::alloc::ThreadAllocTallyMap) -> bool {
    true
}
/// Observing variant: the loop asks `is_empty()` on each RawSample's tallies right before it would store
/// them; record what the sample carries and answer "empty" so that the HashMap insert stays out of the formula.
fn tallies_observe(t: &crate::alloc::ThreadAllocTallyMap) -> bool {
    unsafe {
        G.obs_samples += 1;
        G.obs_alloc_count = t.get(AllocOp::Alloc).count;
        G.obs_alloc_size = t.get(AllocOp::Alloc).size;
        G.obs_dealloc_count = t.get(AllocOp::Dealloc).count;
        G.obs_other = t.get(AllocOp::Grow).count + t.get(AllocOp::Shrink).count + t.get(AllocOp::Dealloc).size;
    }
    true
}

/// Sequential stand-in for the pool: task(0), task(1), ..., task(aux), results in index order.
fn par_extend_seq<T, F>(_this: &ThreadPool, vec: &mut Vec<Option<T>>, aux: usize, task: F)
where
    F: Sync + Fn(usize) -> T,
    T: Sync + Send,
{
    unsafe {
        G.rounds += 1;
        kani::assume(G.rounds <= G.round_cut);
    }
    // Each (sequentialised) thread gets its own time line starting at the round's common base: in a real
    // parallel round thread j's timestamps are not ordered after thread i's, only after the round start.
    let base = unsafe { G.clock };
    let mut latest = base;
    let mut i = 0;
    while i <= aux {
        unsafe {
            G.clock = base;
            // a new sample starts on (sequentialised) thread i
            G.phase = 0;
            G.sample_first = G.next;
            G.sample_calls = 0;
            G.sample_counted = 0;
            G.cur_thread = i as u8;
            G.waits = 0;
            G.tasks += 1;
        }
        vec.push(Some(task(i)));
        unsafe {
            assert!(G.phase == 2, "sample finished without both timestamps");
            if G.clock > latest {
                latest = G.clock;
            }
        }
        i += 1;
    }
    // the caller resumes after every thread has finished
    unsafe { G.clock = latest };
}

fn shared(action: Action) -> SharedContext {
    SharedContext {
        action,
        timer: Timer::Tsc { frequency: NonZeroU64::new(1_000_000_000_000).unwrap() },
        thread_pool: ThreadPool::new(),
    }
}

// ------------------------------------------------------------------ reference rule (C03 / C04 / C19)

struct Model {
    n: u32,          // effective sample count
    threads: u32,
    tune: bool,      // sample size tuned (starts at 1)
    size0: u32,
    max_p: u128,
    min_p: u128,
    skip_ext: bool,
    precision: u128,
}

struct Outcome {
    calls: u32,
    final_size: u32,
    tuning_rounds: u32,
}

/// Checks, on the clock readings the real run produced, that the loop executed exactly the smallest number
/// of rounds satisfying the documented rule: the continue-condition held before every executed round and
/// fails after the last one.  Returns the model's totals.
unsafe fn check_rounds(m: &Model, rounds: u32) -> Outcome {
    let mut elapsed: u128 = 0;
    let mut rem: Option<u32> = if m.tune { None } else { Some(m.n) };
    let mut size = m.size0;
    let mut tuning = m.tune;
    let mut calls = 0u32;
    let mut tuning_rounds = 0u32;
    let mut k = 0u32;
    loop {
        let cont = if elapsed >= m.max_p {
            false
        } else if rem.unwrap_or(1) > 0 {
            true
        } else {
            elapsed < m.min_p
        };
        if k < rounds {
            assert!(cont, "loop ran a round although the rule says stop");
        } else {
            assert!(!cont, "loop stopped although the rule says continue");
            break;
        }
        // round k+1 executed
        let idx = k as usize;
        calls += size * m.threads;
        let slowest = G.slowest[idx] as u128;
        if tuning {
            if slowest / m.precision <= 100 {
                size *= 2;
                tuning_rounds += 1;
            } else {
                tuning = false;
                rem = Some(m.n);
            }
        }
        if let Some(r) = &mut rem {
            *r = r.saturating_sub(m.threads);
        }
        if m.skip_ext {
            elapsed = elapsed.saturating_add(if slowest > 1000 { slowest } else { 1000 });
        } else {
            elapsed = (G.max_end[idx] - G.first) as u128;
        }
        k += 1;
    }
    Outcome { calls, final_size: size, tuning_rounds }
}

fn any_opt_ns(kind: u8) -> (Option<std::time::Duration>, u128) {
    // kind 0: unset, 1: zero, else symbolic u32 nanoseconds
    match kind {
        0 => (None, 0),
        1 => (Some(std::time::Duration::ZERO), 0),
        _ => {
            let ns: u32 = kani::any();
            (Some(std::time::Duration::from_nanos(ns as u64)), ns as u128 * 1000)
        }
    }
}

/// Whole sampling loop with explicit sample size: C03 (call counts) and C04 (time limits).
/// `n_opt`: sample_count option (None = default 100).
fn run_loop(n_opt: Option<u32>, s: u32, t: usize, round_cut: u32, limits: bool) {
    unsafe { G.round_cut = round_cut };
    let sh = shared(Action::Bench);
    let (max_time, max_p, min_time, min_p, skip) = if limits {
        let mk: u8 = kani::any();
        let nk: u8 = kani::any();
        kani::assume(mk < 3 && nk < 3);
        let (max_time, mp) = any_opt_ns(mk);
        let (min_time, np) = any_opt_ns(nk);
        let sk: u8 = kani::any();
        kani::assume(sk < 3);
        let skip = match sk { 0 => None, 1 => Some(false), _ => Some(true) };
        (max_time, if max_time.is_none() { u128::MAX } else { mp }, min_time, np, skip)
    } else {
        (None, u128::MAX, None, 0, None)
    };
    let options = BenchOptions {
        sample_count: n_opt,
        sample_size: Some(s),
        max_time,
        min_time,
        skip_ext_time: skip,
        ..Default::default()
    };
    let mut ctx = BenchContext::new(&sh, &options, NonZeroUsize::new(t).unwrap());
    Bencher::new(&mut ctx)
        .with_inputs(|| unsafe {
            G.gens += 1;
            G.next += 1;
            7u8
        })
        .bench_values(|x: u8| unsafe {
            G.calls += 1;
            G.sample_calls += 1;
            x
        });
    unsafe {
        assert_eq!(G.magic, MAGIC);
        let rounds = G.rounds;
        let n = n_opt.unwrap_or(100);
        if max_p == 0 || n == 0 || s == 0 {
            // not called at all
            assert_eq!(rounds, 0);
            assert_eq!(G.calls, 0);
            assert_eq!(G.gens, 0);
            assert_eq!(ctx.samples.time_samples.len(), 0);
        } else {
            let m = Model {
                n,
                threads: t as u32,
                tune: false,
                size0: s,
                max_p,
                min_p,
                skip_ext: skip.unwrap_or(false),
                precision: 1,
            };
            let o = check_rounds(&m, rounds);
            assert_eq!(G.calls, o.calls);
            assert_eq!(G.gens, o.calls);
            assert_eq!(G.calls, s * t as u32 * rounds);
            assert_eq!(ctx.samples.time_samples.len() as u32, t as u32 * rounds);
            assert_eq!(ctx.samples.sample_size, s);
            assert_eq!(ctx.samples.iter_count(), (t as u64 * rounds as u64) * s as u64);
            // every round: one start and one end timestamp per (sequentialised) thread
            let mut r = 0;
            while r < rounds as usize && r < R {
                assert_eq!(G.starts_in_round[r] as usize, t);
                assert_eq!(G.ends_in_round[r] as usize, t);
                r += 1;
            }
            if !limits {
                // no time limit: exactly ceil(n/T) rounds
                assert_eq!(rounds, (n + t as u32 - 1) / t as u32);
            }
        }
        let tt = t as u32;
        let rounds = G.rounds;
        let can_exceed = n < round_cut * tt; // more than n samples fit inside the round bound
        // vacuity witnesses valid for every configuration of this driver
        let zero_cfg = n_opt == Some(0) || s == 0;
        let off = zero_cfg || !limits;
        kani::cover!(zero_cfg || G.rounds >= 1);
        kani::cover!(!(zero_cfg || limits) || G.rounds == 0);
        kani::cover!(off || rounds == round_cut);
        kani::cover!(off || n <= tt || (rounds >= 1 && rounds * tt < n)); // stopped by max_time before n samples
        kani::cover!(off || !can_exceed || rounds * tt >= n + tt); // continued by min_time after n samples
        kani::cover!(off || (min_p > max_p && rounds >= 1));
        kani::cover!(off || (skip == Some(true) && rounds >= 2));
        kani::cover!(!(zero_cfg && limits) || (min_p > 0 && max_p > min_p));
    }
    std::mem::forget(ctx);
}

fn wait_stub(_b: &Barrier) -> std::sync::BarrierWaitResult {
    unsafe {
        G.waits += 1;
        if G.waits == 2 {
            // the thread's tally must have been cleared by now (C08)
            if let Some(info) = ThreadAllocInfo::current() {
                let info = info.as_ref();
                if !(info.tallies.values[0].count == 0 && info.tallies.values[1].count == 0
                    && info.tallies.values[2].count == 0 && info.tallies.values[3].count == 0
                    && info.max_count == 0 && info.current_count == 0 && info.max_size == 0 && info.current_size == 0)
                {
                    G.tls_dirty_at_wait2 = true;
                }
            }
        }
        std::mem::zeroed()
    }
}

macro_rules! loop_stubs {
    ($(#[$m:meta])* fn $name:ident() $body:block) => {
        $(#[$m])*
        #[kani::proof]
        #[kani::stub(crate::time::timestamp::tsc::TscTimestamp::start, ts_start)]
        #[kani::stub(crate::time::timestamp::tsc::TscTimestamp::end, ts_end)]
        #[kani::stub(crate::time::timestamp::tsc::TscTimestamp::duration_since, dur_stub)]
        #[kani::stub(crate::time::fence::full_fence, nop)]
        #[kani::stub(crate::time::fence::compiler_fence, nop)]
        #[kani::stub(std::hash::RandomState::new, rs_stub)]
        #[kani::stub(crate::util::thread::pool::ThreadPool::par_extend, par_extend_seq)]
        #[kani::stub(crate::time::timer::Timer::bench_overheads, overheads_zero)]
        #[kani::stub(crate::time::timer::Timer::precision, precision_ghost)]
        #[kani::stub(crate::alloc::ThreadAllocInfo::try_current, try_current_none)]
        #[kani::stub(crate::alloc::AllocOpMap::is_empty, tallies_empty)]
        #[kani::stub(std::sync::Barrier::wait, wait_stub)]
        fn $name() $body
    };
}

/// Monitor variant: the real thread-local tally is used (no try_current stub); the RawSample's tallies are observed.
macro_rules! mon_stubs {
    ($(#[$m:meta])* fn $name:ident() $body:block) => {
        $(#[$m])*
        #[kani::proof]
        #[kani::stub(crate::time::timestamp::tsc::TscTimestamp::start, ts_start)]
        #[kani::stub(crate::time::timestamp::tsc::TscTimestamp::end, ts_end)]
        #[kani::stub(crate::time::timestamp::tsc::TscTimestamp::duration_since, dur_stub)]
        #[kani::stub(crate::time::fence::full_fence, nop)]
        #[kani::stub(crate::time::fence::compiler_fence, nop)]
        #[kani::stub(std::hash::RandomState::new, rs_stub)]
        #[kani::stub(crate::util::thread::pool::ThreadPool::par_extend, par_extend_seq)]
        #[kani::stub(crate::time::timer::Timer::bench_overheads, overheads_zero)]
        #[kani::stub(crate::time::timer::Timer::precision, precision_ghost)]
        #[kani::stub(crate::alloc::AllocOpMap::is_empty, tallies_observe)]
        #[kani::stub(std::sync::Barrier::wait, wait_stub)]
        fn $name() $body
    };
}

// ---- C03: exact call counts without time limits

// @cell props=C03 tier=quick kind=core timeout=1200 mem=12 cls=K
// @desc n=2, s=1, T=1, no time limit, every clock reading symbolic: exactly 2 rounds, 2 calls, 2 samples, iters = 2
loop_stubs! {
    #[kani::unwind(6)]
    fn c03_counts_n2_s1_t1() { run_loop(Some(2), 1, 1, 3, false) }
}

// @cell props=C03 tier=quick kind=core timeout=1200 mem=12 cls=K
// @desc n=3, s=2, T=1 (the suite's point, here for every clock history): 3 rounds, 6 calls
loop_stubs! {
    #[kani::unwind(6)]
    fn c03_counts_n3_s2_t1() { run_loop(Some(3), 2, 1, 4, false) }
}

// @cell props=C03 tier=quick kind=core timeout=1500 mem=12 cls=K
// @desc n=3, s=1, T=2 (threads sequentialised): ceil(3/2)=2 rounds, 4 samples, 4 calls, 2 samples per thread
loop_stubs! {
    #[kani::unwind(6)]
    fn c03_counts_n3_s1_t2() { run_loop(Some(3), 1, 2, 3, false) }
}

// @cell props=C03 tier=quick kind=core timeout=1500 mem=12 cls=K
// @desc n=2, s=1, T=3: one round, 3 samples, 3 calls
loop_stubs! {
    #[kani::unwind(6)]
    fn c03_counts_n2_s1_t3() { run_loop(Some(2), 1, 3, 2, false) }
}

// @cell props=C03 tier=quick kind=core timeout=1500 mem=12 cls=K
// @desc n=1, s=1, T=3: the single round overshoots n by two samples; all 3 samples are recorded (T*ceil(n/T))
loop_stubs! {
    #[kani::unwind(6)]
    fn c03_counts_n1_s1_t3() { run_loop(Some(1), 1, 3, 2, false) }
}

// @cell props=C03 tier=quick kind=core timeout=900 mem=12 cls=K
// @desc n=0 (s=1) and s=0 (n=1): the benchmarked function and the generator are never called, nothing stored
loop_stubs! {
    #[kani::unwind(6)]
    fn c03_counts_zero() {
        let which: bool = kani::any();
        if which { run_loop(Some(0), 1, 1, 1, false) } else { run_loop(Some(1), 0, 1, 1, false) }
    }
}

// @cell props=C03 tier=quick kind=core timeout=900 mem=12 cls=K
// @desc n=0 (s=1) and s=0 (n=1) with min_time / max_time / skip_ext_time symbolic (a positive min_time included): still
// @desc never called
loop_stubs! {
    #[kani::unwind(6)]
    fn c03_counts_zero_with_limits() {
        let which: bool = kani::any();
        if which { run_loop(Some(0), 1, 1, 1, true) } else { run_loop(Some(1), 0, 1, 1, true) }
    }
}

/// n = 0 outside the plain collecting mode: test mode, and bench mode with automatic sample size.
fn run_zero_other_modes() {
    unsafe { G.round_cut = 1 };
    let test: bool = kani::any();
    let sh = shared(if test { Action::Test } else { Action::Bench });
    let s_opt: Option<u32> = if test && kani::any() { Some(kani::any()) } else { None };
    let min_ns: u32 = kani::any();
    let options = BenchOptions {
        sample_count: Some(0),
        sample_size: s_opt,
        min_time: Some(std::time::Duration::from_nanos(min_ns as u64)),
        ..Default::default()
    };
    let mut ctx = BenchContext::new(&sh, &options, NonZeroUsize::MIN);
    Bencher::new(&mut ctx)
        .with_inputs(|| unsafe {
            G.gens += 1;
            G.next += 1;
            7u8
        })
        .bench_values(|x: u8| unsafe {
            G.calls += 1;
            G.sample_calls += 1;
            x
        });
    unsafe {
        assert_eq!(G.magic, MAGIC);
        assert_eq!(G.rounds, 0);
        assert_eq!(G.calls, 0);
        assert_eq!(G.gens, 0);
        assert_eq!(ctx.samples.time_samples.len(), 0);
        kani::cover!(test && min_ns > 0);
        kani::cover!(!test && min_ns > 0);
    }
    std::mem::forget(ctx);
}

// @cell props=C03 tier=quick kind=core timeout=900 mem=12 cls=K
// @desc n=0 in test mode (any sample size) and in bench mode with automatic sample size, any min_time: never called
loop_stubs! {
    #[kani::unwind(6)]
    fn c03_zero_count_test_and_tune() { run_zero_other_modes() }
}

// @cell props=C03 tier=thorough kind=core timeout=2400 mem=16 cls=K
// @desc n=4, s=3, T=2
loop_stubs! {
    #[kani::unwind(7)]
    fn c03_counts_n4_s3_t2() { run_loop(Some(4), 3, 2, 3, false) }
}

// @cell props=C03 tier=thorough kind=core timeout=2400 mem=16 cls=K
// @desc n=5, s=1, T=4: 2 rounds, 8 samples
loop_stubs! {
    #[kani::unwind(8)]
    fn c03_counts_n5_s1_t4() { run_loop(Some(5), 1, 4, 3, false) }
}

/// Test mode: once per thread, nothing stored.
fn run_test_mode(t: usize) {
    unsafe { G.round_cut = 2 };
    let sh = shared(Action::Test);
    let n: u32 = kani::any();
    let s: u32 = kani::any();
    kani::assume(n >= 1 && s >= 1);
    let options = BenchOptions { sample_count: Some(n), sample_size: Some(s), ..Default::default() };
    let mut ctx = BenchContext::new(&sh, &options, NonZeroUsize::new(t).unwrap());
    Bencher::new(&mut ctx)
        .with_inputs(|| unsafe {
            G.gens += 1;
            G.next += 1;
            7u8
        })
        .bench_values(|x: u8| unsafe {
            G.calls += 1;
            G.sample_calls += 1;
            x
        });
    unsafe {
        assert_eq!(G.rounds, 1);
        assert_eq!(G.calls as usize, t);
        assert_eq!(G.gens as usize, t);
        assert_eq!(ctx.samples.time_samples.len(), 0);
        assert_eq!(ctx.samples.time_samples.capacity(), 0);
        assert!(ctx.did_run);
        kani::cover!(n > 1 && s > 1);
    }
    std::mem::forget(ctx);
}

// @cell props=C03 tier=quick kind=core timeout=900 mem=12 cls=K
// @desc test mode, T=1 and T=2, any configured n >= 1 and s >= 1 (symbolic): exactly one call per thread, no sample stored
loop_stubs! {
    #[kani::unwind(6)]
    fn c03_test_mode() {
        let two: bool = kani::any();
        if two { run_test_mode(2) } else { run_test_mode(1) }
    }
}

// ---- C04: time limits

// @cell props=C04,C03 tier=quick kind=core timeout=1800 mem=12 cls=K
// @desc n=2, s=1, T=1; max_time and min_time each unset / 0 / symbolic u32 ns, skip_ext_time unset/false/true,
// @desc every clock reading symbolic; up to 3 rounds: the number of rounds is exactly the smallest satisfying the rule
loop_stubs! {
    #[kani::unwind(6)]
    fn c04_limits_n2_s1_t1() { run_loop(Some(2), 1, 1, 3, true) }
}

// @cell props=C04,C03 tier=quick kind=core timeout=1800 mem=12 cls=K
// @desc n=1, s=2, T=2 (sequentialised): elapsed uses the latest end / slowest thread of the newest round
loop_stubs! {
    #[kani::unwind(6)]
    fn c04_limits_n1_s2_t2() { run_loop(Some(1), 2, 2, 3, true) }
}

// @cell props=C04,C03 tier=quick kind=core timeout=1800 mem=12 cls=K
// @desc sample_count unset (default 100), s=1, T=1, limits symbolic, first 3 rounds: sampling goes on as for n=100
// @desc (only max_time can stop it within the bound)
loop_stubs! {
    #[kani::unwind(6)]
    fn c04_limits_default_n() { run_loop(None, 1, 1, 3, true) }
}

// @cell props=C04 tier=thorough kind=core timeout=3000 mem=16 cls=K
// @desc n=2, s=1, T=1, limits symbolic, up to 4 rounds
loop_stubs! {
    #[kani::unwind(7)]
    fn c04_limits_n2_s1_t1_r4() { run_loop(Some(2), 1, 1, 4, true) }
}

// ---- C19: automatic sample size

fn run_tune(n: u32, t: usize, round_cut: u32, with_max: bool, p: u128, skip: bool) {
    unsafe {
        G.round_cut = round_cut;
        G.precision = p;
        G.max_inc = 400 * p as u64;
    }
    let sh = shared(Action::Bench);
    let (max_time, max_p) = if with_max {
        let ns: u32 = kani::any();
        (Some(std::time::Duration::from_nanos(ns as u64)), ns as u128 * 1000)
    } else {
        (None, u128::MAX)
    };
    let options = BenchOptions { sample_count: Some(n), max_time, skip_ext_time: if skip { Some(true) } else { None }, ..Default::default() };
    let mut ctx = BenchContext::new(&sh, &options, NonZeroUsize::new(t).unwrap());
    Bencher::new(&mut ctx)
        .with_inputs(|| unsafe {
            G.gens += 1;
            G.next += 1;
            7u8
        })
        .bench_values(|x: u8| unsafe {
            G.calls += 1;
            G.sample_calls += 1;
            x
        });
    unsafe {
        assert_eq!(G.magic, MAGIC);
        let rounds = G.rounds;
        if max_p == 0 {
            assert_eq!(rounds, 0);
        } else {
            let m = Model {
                n,
                threads: t as u32,
                tune: true,
                size0: 1,
                max_p,
                min_p: 0,
                skip_ext: skip,
                precision: p,
            };
            let o = check_rounds(&m, rounds);
            assert_eq!(G.calls, o.calls);
            assert!(rounds >= 1);
            // all reported samples use the final size; tuning rounds are discarded, the round that first
            // passed the threshold is the first recorded one
            let passed = o.tuning_rounds < rounds;
            if passed {
                assert_eq!(ctx.samples.sample_size, o.final_size);
                assert_eq!(ctx.samples.time_samples.len() as u32, (rounds - o.tuning_rounds) * t as u32);
            } else {
                // max_time cut tuning short: only the last (too short) tuning round's samples remain
                assert_eq!(ctx.samples.time_samples.len() as u32, t as u32);
                assert_eq!(ctx.samples.sample_size * 2, o.final_size);
            }
            // power of two
            assert!(o.final_size.is_power_of_two());
            kani::cover!(passed && o.tuning_rounds == 0);
            kani::cover!(passed && o.tuning_rounds >= 2);
            kani::cover!(passed && o.tuning_rounds == 1 && G.slowest[0] as u128 / p == 100);
            kani::cover!(!with_max || (!passed && rounds >= 2));
        }
    }
    std::mem::forget(ctx);
}

// @cell props=C19 tier=quick kind=core timeout=1800 mem=12 cls=K
// @desc sample_size unset, n=1, T=1, precision 10 ps, clock increments symbolic (0..400 x precision), up to 3 rounds: size
// @desc doubles exactly while floor(slowest/precision) <= 100; the passing round is sample #1 at the final size
loop_stubs! {
    #[kani::unwind(6)]
    fn c19_tune_n1_t1() { run_tune(1, 1, 3, false, 10, false) }
}

// @cell props=C19 tier=quick kind=core timeout=1800 mem=12 cls=K
// @desc n=2, T=1, precision 1 ps, with a symbolic max_time: the budget also covers the tuning rounds
loop_stubs! {
    #[kani::unwind(6)]
    fn c19_tune_n2_t1_max() { run_tune(2, 1, 3, true, 1, false) }
}

// @cell props=C19,C04 tier=quick kind=core timeout=1800 mem=12 cls=K
// @desc n=2, T=1, precision 1 ps, symbolic max_time and skip_ext_time = true: the budget (sum of the slowest timed
// @desc sections, >= 1 ns per round) keeps accumulating across the tuning rounds and the switch to collecting
loop_stubs! {
    #[kani::unwind(6)]
    fn c19_tune_n2_t1_max_skip_ext() { run_tune(2, 1, 3, true, 1, true) }
}

// @cell props=C19 tier=quick kind=core timeout=2400 mem=14 cls=K
// @desc n=1, T=2 (sequentialised), precision 1000 ps: the slowest thread's sample decides
loop_stubs! {
    #[kani::unwind(6)]
    fn c19_tune_n1_t2() { run_tune(1, 2, 3, false, 1000, false) }
}

// @cell props=C19 tier=thorough kind=core timeout=3000 mem=16 cls=K
// @desc n=1, T=1, symbolic precision in 1..=2^20 ps, up to 3 rounds
loop_stubs! {
    #[kani::unwind(6)]
    fn c19_tune_sym_precision() {
        let p: u32 = kani::any();
        kani::assume(p >= 1 && p <= (1 << 20));
        run_tune(1, 1, 3, false, p as u128, false)
    }
}

// @cell props=C19 tier=thorough kind=core timeout=3000 mem=16 cls=K
// @desc n=1, T=1, precision 10 ps, up to 4 rounds
loop_stubs! {
    #[kani::unwind(10)]
    fn c19_tune_n1_t1_r4() { run_tune(1, 1, 4, false, 10, false) }
}

// ====================================================================================================
// C01 / C02 / C08: per-value life cycle and per-sample phases, through the public Bencher entry points
// ====================================================================================================

struct Cfg {
    magic: u64,
    has_counter: bool, // an input counter is registered
    has_out: bool,     // outputs carry identity and a destructor
    by_value: bool,    // inputs are moved into the benchmarked function (divan must not drop them)
    input_drop: bool,  // inputs lent by reference have a destructor divan must run
    barrier: bool,     // a Barrier is in use (T >= 2): three waits per sample expected
}
static mut C: Cfg =
    Cfg { magic: 0xD1FA_57A7_1C00_0302, has_counter: false, has_out: false, by_value: false, input_drop: false, barrier: false };

struct Tok {
    id: u8,
    pad: u32,
}
impl Drop for Tok {
    fn drop(&mut self) {
        unsafe {
            assert!(!C.by_value, "divan dropped an input it had moved into the benchmarked function");
            assert!(G.phase == 2, "input dropped inside or before the timed section");
            let st = G.state[self.id as usize];
            if C.has_out {
                assert!(st == 4, "input dropped before its output / twice / unused");
            } else {
                assert!(st == 3, "input dropped twice or before use");
            }
            assert!(G.owner[self.id as usize] == G.cur_thread);
            if C.barrier {
                assert!(G.waits == 3, "drop before every thread took its end timestamp");
            }
            G.state[self.id as usize] = 5;
            tls_tally_dealloc(3);
        }
    }
}
struct Out {
    id: u8,
}
impl Drop for Out {
    fn drop(&mut self) {
        unsafe {
            assert!(G.phase == 2, "output dropped inside the timed section");
            assert!(G.state[self.id as usize] == 3, "output dropped twice or without a call");
            assert!(G.owner[self.id as usize] == G.cur_thread);
            if C.barrier {
                assert!(G.waits == 3, "drop before every thread took its end timestamp");
            }
            G.state[self.id as usize] = 4;
            tls_tally_dealloc(5);
        }
    }
}

/// Allocation scripts are performed directly on the thread's tally through the real tally functions
/// (the very calls AllocProfiler makes); no-ops when the thread-local is stubbed away.
unsafe fn tls_tally_alloc(size: usize) {
    if let Some(mut i) = ThreadAllocInfo::try_current() {
        i.as_mut().tally_alloc(size);
    }
}
unsafe fn tls_tally_dealloc(size: usize) {
    if let Some(mut i) = ThreadAllocInfo::try_current() {
        i.as_mut().tally_dealloc(size);
    }
}

fn gen_tok() -> Tok {
    unsafe {
        assert!(G.phase == 0, "input generated inside or after the timed section");
        if C.barrier {
            assert!(G.waits == 0, "input generated after the first rendezvous");
        }
        let id = G.next;
        assert!((id as usize) < 8);
        G.next += 1;
        G.gens += 1;
        G.state[id as usize] = 1;
        G.owner[id as usize] = G.cur_thread;
        tls_tally_alloc(7);
        Tok { id, pad: kani::any() }
    }
}

fn count_tok(t: &Tok) {
    unsafe {
        assert!(G.phase == 0, "input counted inside or after the timed section");
        assert!(G.state[t.id as usize] == 1, "input shown to the counter twice or before generation");
        assert!(G.owner[t.id as usize] == G.cur_thread);
        G.state[t.id as usize] = 2;
        G.sample_counted += 1;
    }
}

unsafe fn use_tok(id: u8) {
    assert!(G.phase == 1, "benchmarked function called outside the timed section");
    let want = if C.has_counter { 2 } else { 1 };
    assert!(G.state[id as usize] == want, "input used twice, before being counted, or after drop");
    assert!(G.owner[id as usize] == G.cur_thread);
    if C.barrier {
        assert!(G.waits == 2, "timed section entered before the second rendezvous");
    }
    G.state[id as usize] = 3;
    G.sample_calls += 1;
    G.calls += 1;
    tls_tally_alloc(11);
}

/// End-of-run verdict on the life cycles: every generated id is in its terminal state.
unsafe fn all_terminal(expect_ids: u8) {
    assert_eq!(G.magic, MAGIC);
    assert_eq!(C.magic, 0xD1FA_57A7_1C00_0302);
    assert_eq!(G.next, expect_ids);
    let terminal = if !C.by_value && C.input_drop { 5 } else if C.has_out { 4 } else { 3 };
    let mut i = 0;
    while i < expect_ids as usize {
        assert!(G.state[i] == terminal, "a value was leaked, not used, or not dropped");
        i += 1;
    }
    assert_eq!(G.calls, expect_ids as u32);
    if C.has_counter {
        // every input was shown exactly once to the counter (state machine forbids twice)
    }
}

/// Common driver: one round, sample size `$s` (concrete: allocation sizes stay concrete for CBMC), T threads
/// (sequentialised), bench or test mode (`$test`, concrete). In test mode the configured sample size is
/// symbolic (>= 1) and must be ignored.
macro_rules! entry_driver {
    ($s:expr, $t:expr, $counter:expr, $test:expr, $gen_in_call:expr, |$b:ident| $call:expr) => {{
        let test: bool = $test;
        let s: u32 = if test { let v: u32 = kani::any(); kani::assume(v >= 1); v } else { $s };
        let per_sample: u32 = if test { 1 } else { s };
        unsafe {
            G.round_cut = 2;
            G.expect_size = per_sample as u8;
            G.expect_gen = if $gen_in_call { 0 } else { per_sample as u8 };
            C.has_counter = $counter;
            C.barrier = $t > 1;
        }
        let sh = shared(if test { Action::Test } else { Action::Bench });
        let options = BenchOptions { sample_count: Some(1), sample_size: Some(s), ..Default::default() };
        let mut ctx = BenchContext::new(&sh, &options, NonZeroUsize::new($t).unwrap());
        {
            let $b = Bencher::new(&mut ctx);
            $call;
        }
        let samples: u32 = $t as u32;
        unsafe {
            assert_eq!(G.tasks, samples);
            all_terminal((per_sample * samples) as u8);
            if !test {
                // C02: the sample carries exactly the allocator operations of its timed section
                // (use_tok: one tally_alloc(11) per call); generator (alloc 7) and destructors (dealloc) excluded
                assert_eq!(G.obs_samples, samples);
                assert_eq!(G.obs_alloc_count, per_sample as u64);
                assert_eq!(G.obs_alloc_size, 11 * per_sample as u64);
                assert_eq!(G.obs_dealloc_count, 0);
                assert_eq!(G.obs_other, 0);
            }
        }
        kani::cover!(unsafe { G.calls } == per_sample * samples);
        std::mem::forget(ctx);
    }};
}

/// `_local` forms: configured thread count `$t` must be ignored (one task, thread index 0).
macro_rules! entry_driver_local {
    ($s:expr, $t:expr, $gen_in_call:expr, |$b:ident| $call:expr) => {{
        let s: u32 = $s;
        unsafe {
            G.round_cut = 2;
            G.expect_size = s as u8;
            G.expect_gen = if $gen_in_call { 0 } else { s as u8 };
        }
        let sh = shared(Action::Bench);
        let options = BenchOptions { sample_count: Some(1), sample_size: Some(s), ..Default::default() };
        let mut ctx = BenchContext::new(&sh, &options, NonZeroUsize::new($t).unwrap());
        {
            let $b = Bencher::new(&mut ctx);
            $call;
        }
        unsafe {
            assert_eq!(G.tasks, 1);
            assert_eq!(G.cur_thread, 0);
            all_terminal(s as u8);
            assert_eq!(G.obs_samples, 1);
            assert_eq!(G.obs_alloc_count, s as u64);
            assert_eq!(G.obs_alloc_size, 11 * s as u64);
            assert_eq!(G.obs_dealloc_count, 0);
        }
        assert_eq!(ctx.thread_count.get(), 1);
        kani::cover!(unsafe { G.calls } == s);
        std::mem::forget(ctx);
    }};
}

// @cell props=C01,C02 tier=quick kind=core timeout=1800 mem=14 cls=K
// @desc bench_refs, input and output both sized with destructors (slot path),
// @desc sample size 2, bench mode: each id generated -> counted -> used once -> output dropped -> input dropped;
// @desc generation/counting before the start timestamp, calls between the two timestamps, all drops after the end
mon_stubs! {
    #[kani::unwind(6)]
    fn c01_refs_drop_drop() {
        unsafe { C.has_out = true; C.input_drop = true; }
        entry_driver!(2, 1, false, false, false, |b| b.with_inputs(gen_tok)
            .bench_refs(|t: &mut Tok| unsafe { use_tok(t.id); Out { id: t.id } }));
    }
}

// @cell props=C01,C02,C03 tier=quick kind=core timeout=1800 mem=14 cls=K
// @desc same shape in test mode with any configured sample size >= 1: exactly one value goes through the life cycle
mon_stubs! {
    #[kani::unwind(6)]
    fn c01_refs_drop_drop_test_mode() {
        unsafe { C.has_out = true; C.input_drop = true; }
        entry_driver!(2, 1, false, true, false, |b| b.with_inputs(gen_tok)
            .bench_refs(|t: &mut Tok| unsafe { use_tok(t.id); Out { id: t.id } }));
    }
}

// @cell props=C01,C02 tier=quick kind=core timeout=1800 mem=14 cls=K
// @desc bench_values, input sized with destructor and moved into the function, output sized with destructor
// @desc (slot path), sample size 2: divan never drops the moved input, drops every output exactly once after the end
mon_stubs! {
    #[kani::unwind(6)]
    fn c01_values_drop_drop() {
        unsafe { C.has_out = true; C.by_value = true; }
        entry_driver!(2, 1, false, false, false, |b| b.with_inputs(gen_tok)
            .bench_values(|t: Tok| unsafe { use_tok(t.id); let id = t.id; std::mem::forget(t); Out { id } }));
    }
}

// @cell props=C01,C02 tier=quick kind=core timeout=1800 mem=14 cls=K
// @desc bench_refs with a plain output (inputs-only path), sample size 2: each lent input dropped exactly once after the end
mon_stubs! {
    #[kani::unwind(6)]
    fn c01_refs_drop_plain() {
        unsafe { C.input_drop = true; }
        entry_driver!(2, 1, false, false, false, |b| b.with_inputs(gen_tok)
            .bench_refs(|t: &mut Tok| unsafe { use_tok(t.id); t.pad }));
    }
}

// @cell props=C01,C02 tier=quick kind=core timeout=1800 mem=14 cls=K
// @desc bench_values with a plain output (inputs-only path), sample size 2: moved inputs are never dropped by divan
mon_stubs! {
    #[kani::unwind(6)]
    fn c01_values_drop_plain() {
        unsafe { C.by_value = true; }
        entry_driver!(2, 1, false, false, false, |b| b.with_inputs(gen_tok)
            .bench_values(|t: Tok| unsafe { use_tok(t.id); let p = t.pad; std::mem::forget(t); p }));
    }
}

/// Identity created by the call itself (entry points without generator).
unsafe fn call_makes_id() -> u8 {
    let id = G.next;
    assert!((id as usize) < 8);
    G.next += 1;
    G.state[id as usize] = 1;
    G.owner[id as usize] = G.cur_thread;
    use_tok(id);
    id
}

// @cell props=C01,C02 tier=quick kind=core timeout=1800 mem=14 cls=K
// @desc bench (no input generator) with a sized output that has a destructor, sample size 2: zero-sized input but
// @desc deferred output drop (slot path with I = ()): every output dropped exactly once after the end timestamp
mon_stubs! {
    #[kani::unwind(6)]
    fn c01_bench_noinput_out_drop() {
        unsafe { C.has_out = true; C.by_value = true; }
        entry_driver!(2, 1, false, false, true, |b| b.bench(|| unsafe { Out { id: call_makes_id() } }));
    }
}

struct ZstOut;
impl Drop for ZstOut {
    fn drop(&mut self) {
        unsafe {
            assert!(G.phase == 2, "zero-sized output dropped inside the timed section");
            if C.barrier {
                assert!(G.waits == 3, "drop before every thread took its end timestamp");
            }
            G.zst_out_drops += 1;
        }
    }
}
struct ZstIn;
impl Drop for ZstIn {
    fn drop(&mut self) {
        unsafe {
            assert!(G.phase == 2, "zero-sized input dropped inside or before the timed section");
            if C.barrier {
                assert!(G.waits == 3, "drop before every thread took its end timestamp");
            }
            G.zst_in_drops += 1;
        }
    }
}

// @cell props=C01,C02 tier=quick kind=core timeout=1800 mem=14 cls=K ignore_re=write_bytes::<.*(ZstIn|ZstOut)>\|memset.destination.region.writeable
// @desc zero-sized fast path: bench_refs with a zero-sized input with destructor and a zero-sized output with
// @desc destructor (identity replaced by counters), sample size symbolic 0..=3, bench/test symbolic: s generator calls
// @desc before the start, s calls inside, exactly s output drops and s input drops after the end timestamp
mon_stubs! {
    #[kani::unwind(6)]
    fn c01_zst_fast_path() {
        let test: bool = kani::any();
        let s: u32 = kani::any();
        kani::assume(s <= 3);
        unsafe { G.round_cut = 2; }
        let sh = shared(if test { Action::Test } else { Action::Bench });
        let options = BenchOptions { sample_count: Some(1), sample_size: Some(s), ..Default::default() };
        let mut ctx = BenchContext::new(&sh, &options, NonZeroUsize::MIN);
        Bencher::new(&mut ctx)
            .with_inputs(|| unsafe { assert!(G.phase == 0); G.gens += 1; ZstIn })
            .bench_refs(|_z: &mut ZstIn| unsafe { assert!(G.phase == 1); G.calls += 1; G.sample_calls += 1; ZstOut });
        let exp = if s == 0 { 0 } else if test { 1 } else { s };
        unsafe {
            assert_eq!(G.gens, exp);
            assert_eq!(G.calls, exp);
            assert_eq!(G.zst_out_drops, exp);
            assert_eq!(G.zst_in_drops, exp);
            assert_eq!(G.magic, MAGIC);
        }
        kani::cover!(!test && s == 3);
        kani::cover!(test && s == 0);
        kani::cover!(test && s == 3);
        std::mem::forget(ctx);
    }
}

// @cell props=C01,C02 tier=quick kind=core timeout=1800 mem=14 cls=K ignore_re=write_bytes::<.*(ZstIn|ZstOut)>\|memset.destination.region.writeable
// @desc bench_refs with a sized input with destructor and a zero-sized output with destructor, sample size 2: the
// @desc zero-sized outputs are dropped after the end timestamp, exactly once each, before their inputs are dropped
mon_stubs! {
    #[kani::unwind(6)]
    fn c01_refs_sized_in_zst_out() {
        unsafe { C.input_drop = true; }
        entry_driver!(2, 1, false, false, false, |b| b.with_inputs(gen_tok)
            .bench_refs(|t: &mut Tok| unsafe { use_tok(t.id); ZstOut }));
        unsafe { assert_eq!(G.zst_out_drops, 2); }
    }
}

// @cell props=C01 tier=quick kind=core timeout=1800 mem=14 cls=K
// @desc bench_local_refs with a configured thread count of 3: everything runs on the calling thread (the pool is
// @desc entered with 0 auxiliary threads, one sample per round)
mon_stubs! {
    #[kani::unwind(6)]
    fn c01_local_refs_stays_on_caller() {
        unsafe { C.has_out = true; C.input_drop = true; }
        // non-zero-sized generator closure: a ZST fn item inside bench_loop_local's UnsafeCell crashes CBMC 6.11
        // ("l2_rename_rvalues case `address_of' not handled")
        let salt: u8 = kani::any();
        entry_driver_local!(2, 3, false, |b| b.with_inputs(move || { let _s = salt; gen_tok() })
            .bench_local_refs(|t: &mut Tok| unsafe { use_tok(t.id); Out { id: t.id } }));
    }
}

// @cell props=C01 tier=quick kind=core timeout=1800 mem=14 cls=K
// @desc bench_local_values with a configured thread count of 3
mon_stubs! {
    #[kani::unwind(6)]
    fn c01_local_values_stays_on_caller() {
        unsafe { C.has_out = true; C.by_value = true; }
        let salt: u8 = kani::any();
        entry_driver_local!(2, 3, false, |b| b.with_inputs(move || { let _s = salt; gen_tok() })
            .bench_local_values(|t: Tok| unsafe { use_tok(t.id); let id = t.id; std::mem::forget(t); Out { id } }));
    }
}

// @cell props=C01 tier=quick kind=core timeout=1800 mem=14 cls=K
// @desc bench_local (no generator) with a configured thread count of 3
mon_stubs! {
    #[kani::unwind(6)]
    fn c01_local_noinput_stays_on_caller() {
        unsafe { C.has_out = true; C.by_value = true; }
        entry_driver_local!(2, 3, true, |b| b.bench_local(|| unsafe { Out { id: call_makes_id() } }));
    }
}

// @cell props=C01,C02,C08 tier=quick kind=core timeout=2400 mem=20 cls=K
// @desc bench_refs on T = 2 threads (sequentialised, Barrier::wait observed), sample size 1: per thread three
// @desc rendezvous per sample (after generation, after the tally clear, after the end timestamp), generation before
// @desc the first, timed section after the second with a cleared tally, drops only after the third; every value
// @desc stays on the thread that generated it
mon_stubs! {
    #[kani::unwind(6)]
    fn c08_refs_t2_protocol() {
        unsafe { C.has_out = true; C.input_drop = true; }
        entry_driver!(1, 2, false, false, false, |b| b.with_inputs(gen_tok)
            .bench_refs(|t: &mut Tok| unsafe { use_tok(t.id); Out { id: t.id } }));
        unsafe {
            assert!(!G.tls_dirty_at_wait2, "allocation tally not cleared before the second rendezvous");
            assert!(G.waits == 3);
        }
    }
}

// @cell props=C08,C01 tier=quick kind=core timeout=2400 mem=20 cls=K ignore_re=write_bytes::<.*(ZstIn|ZstOut)>\|memset.destination.region.writeable
// @desc zero-sized fast path on T = 2 threads (sequentialised, Barrier::wait observed): bench_refs with a zero-sized
// @desc input that has a destructor and a plain output, sample size symbolic 1..=2: still three rendezvous per thread
// @desc and sample, the tally cleared before the second, every input destructor after the third
mon_stubs! {
    #[kani::unwind(6)]
    fn c08_zst_in_drop_plain_out_t2_protocol() {
        let s: u32 = kani::any();
        kani::assume(s >= 1 && s <= 2);
        unsafe { G.round_cut = 2; C.barrier = true; }
        let sh = shared(Action::Bench);
        let options = BenchOptions { sample_count: Some(1), sample_size: Some(s), ..Default::default() };
        let mut ctx = BenchContext::new(&sh, &options, NonZeroUsize::new(2).unwrap());
        Bencher::new(&mut ctx)
            .with_inputs(|| unsafe { assert!(G.phase == 0); G.gens += 1; ZstIn })
            .bench_refs(|_z: &mut ZstIn| unsafe { assert!(G.phase == 1); G.calls += 1; G.sample_calls += 1; 5u8 });
        unsafe {
            assert_eq!(G.tasks, 2);
            assert_eq!(G.gens, 2 * s);
            assert_eq!(G.calls, 2 * s);
            assert_eq!(G.zst_in_drops, 2 * s);
            assert!(!G.tls_dirty_at_wait2, "allocation tally not cleared before the second rendezvous");
            assert!(G.waits == 3, "a thread did not wait three times in its sample");
            assert_eq!(G.magic, MAGIC);
        }
        kani::cover!(s == 2);
        std::mem::forget(ctx);
    }
}

// ---- which sample index a thread's allocation record is stored under (C08: "each thread's sample reports only that
// ---- thread's own allocations"; C02: "the allocation figures attributed to a sample")

struct KGhost {
    magic: u64,
    n: usize,
    keys: [u32; 4],
    sizes: [u64; 4],
}
static mut KG: KGhost = KGhost { magic: 0xD1FA_57A7_1C00_0803, n: 0, keys: [0; 4], sizes: [0; 4] };

/// Recording stand-in for `HashMap::insert` (keeps hashbrown + SipHash out of the query): logs the key and the
/// allocation record's alloc-bytes figure.
fn hm_insert_rec<K, V, S, A: std::alloc::Allocator>(_m: &mut std::collections::HashMap<K, V, S, A>, k: K, v: V) -> Option<V> {
    unsafe {
        assert!(std::mem::size_of::<K>() == 4 && std::mem::size_of::<V>() == std::mem::size_of::<ThreadAllocInfo>());
        let key: u32 = std::mem::transmute_copy(&k);
        let info: &ThreadAllocInfo = &*(&v as *const V as *const ThreadAllocInfo);
        if KG.n < 4 {
            KG.keys[KG.n] = key;
            KG.sizes[KG.n] = info.tallies.get(AllocOp::Alloc).size;
        }
        KG.n += 1;
    }
    std::mem::forget(k);
    std::mem::forget(v);
    None
}

macro_rules! map_stubs {
    ($(#[$m:meta])* fn $name:ident() $body:block) => {
        $(#[$m])*
        #[kani::proof]
        #[kani::stub(crate::time::timestamp::tsc::TscTimestamp::start, ts_start)]
        #[kani::stub(crate::time::timestamp::tsc::TscTimestamp::end, ts_end)]
        #[kani::stub(crate::time::timestamp::tsc::TscTimestamp::duration_since, dur_stub)]
        #[kani::stub(crate::time::fence::full_fence, nop)]
        #[kani::stub(crate::time::fence::compiler_fence, nop)]
        #[kani::stub(std::hash::RandomState::new, rs_stub)]
        #[kani::stub(crate::util::thread::pool::ThreadPool::par_extend, par_extend_seq)]
        #[kani::stub(crate::time::timer::Timer::bench_overheads, overheads_zero)]
        #[kani::stub(crate::time::timer::Timer::precision, precision_ghost)]
        #[kani::stub(std::collections::HashMap::insert, hm_insert_rec)]
        #[kani::stub(std::sync::Barrier::wait, wait_stub)]
        fn $name() $body
    };
}

// @cell props=C08,C02 tier=quick kind=core timeout=2400 mem=20 cls=K
// @desc bench_values on T = 2 threads (sequentialised), n = 3, s = 1 (two rounds, four samples); thread i allocates
// @desc 11 + 2i bytes inside its timed section: the allocation record of the k-th recorded sample is stored under
// @desc index k and carries that thread's own bytes (HashMap::insert observed by a recording stub)
map_stubs! {
    #[kani::unwind(6)]
    fn c08_alloc_record_keyed_by_own_sample_t2() {
        unsafe { G.round_cut = 3; }
        let sh = shared(Action::Bench);
        let options = BenchOptions { sample_count: Some(3), sample_size: Some(1), ..Default::default() };
        let mut ctx = BenchContext::new(&sh, &options, NonZeroUsize::new(2).unwrap());
        Bencher::new(&mut ctx)
            .with_inputs(|| unsafe { G.gens += 1; G.next += 1; tls_tally_alloc(7); 7u8 })
            .bench_values(|x: u8| unsafe {
                G.calls += 1;
                G.sample_calls += 1;
                tls_tally_alloc(11 + 2 * G.cur_thread as usize);
                x
            });
        unsafe {
            assert_eq!(G.rounds, 2);
            assert_eq!(ctx.samples.time_samples.len(), 4);
            assert_eq!(KG.n, 4);
            assert!(KG.keys[0] == 0 && KG.keys[1] == 1 && KG.keys[2] == 2 && KG.keys[3] == 3);
            assert!(KG.sizes[0] == 11 && KG.sizes[1] == 13 && KG.sizes[2] == 11 && KG.sizes[3] == 13);
            assert_eq!(KG.magic, 0xD1FA_57A7_1C00_0803);
            assert_eq!(G.magic, MAGIC);
        }
        kani::cover!(true);
        std::mem::forget(ctx);
    }
}

// ---- per-input counters through the loop (C01 counting clause, C05 per-iteration counter value)

// @cell props=C05,C01 tier=thorough kind=attempt timeout=900 mem=20 cls=K
// @desc with_inputs + input_counter through the whole loop, n=1, s=2, T=1, input values symbolic: the counter closure
// @desc sees every generated input exactly once (before the start timestamp) and the per-sample figure stored for
// @desc the statistics is floor(sum of the sample's input counts / sample size)
loop_stubs! {
    #[kani::unwind(6)]
    fn c05_input_counter_through_loop() {
        unsafe { G.round_cut = 2; G.expect_size = 2; G.expect_gen = 2; }
        let sh = shared(Action::Bench);
        let options = BenchOptions { sample_count: Some(1), sample_size: Some(2), ..Default::default() };
        let mut ctx = BenchContext::new(&sh, &options, NonZeroUsize::MIN);
        let v: [u16; 2] = [kani::any(), kani::any()];
        static mut VALS: [u16; 2] = [0; 2];
        static mut SEEN: [u8; 2] = [0; 2];
        unsafe { VALS = v; }
        Bencher::new(&mut ctx)
            .with_inputs(|| unsafe {
                let i = G.gens as usize;
                G.gens += 1;
                G.next += 1;
                (i as u8, VALS[i & 1])
            })
            .input_counter(|_x: &(u8, u16)| unsafe {
                // the erased input pointer is deliberately not dereferenced here (its value set makes CBMC's
                // symex explode inside the loop); that the closure receives the right input is decided by
                // counters::c05_input_counter_roundtrip and by the recorder monitor harnesses
                assert!(G.phase == 0, "input counted inside or after the timed section");
                let k = (G.sample_counted & 1) as usize;
                G.sample_counted += 1;
                SEEN[k] += 1;
                ItemsCount::new(VALS[k] as u64)
            })
            .bench_values(|x: (u8, u16)| unsafe {
                G.calls += 1;
                G.sample_calls += 1;
                x.1
            });
        unsafe {
            assert_eq!(G.calls, 2);
            assert!(SEEN[0] == 1 && SEEN[1] == 1);
            let counts = ctx.counters.counts(KnownCounterKind::Items);
            assert_eq!(counts.len(), 1);
            assert_eq!(counts[0], (v[0] as u64 + v[1] as u64) / 2);
            assert!(ctx.counters.counts(KnownCounterKind::Bytes).is_empty());
            kani::cover!((v[0] as u64 + v[1] as u64) % 2 == 1);
        }
        std::mem::forget(ctx);
    }
}

// ---- the sample recorder called directly: input counters see each input exactly once (C01), symbolic sample size

/// `which`: 0 = refs/slots (Tok -> Out), 1 = values/slots (Tok moved -> Out), 2 = refs/inputs-only (Tok -> u32)
fn recorder_direct(which: u8, smax: usize, barrier: bool) {
    let s: usize = kani::any();
    kani::assume(s <= smax);
    unsafe {
        G.rounds = 1; // timestamps belong to a sample
        G.expect_size = s as u8;
        G.expect_gen = s as u8;
        C.has_counter = true;
        C.barrier = barrier;
        G.tasks = 1;
    }
    let sh = shared(Action::Bench);
    let options = BenchOptions::default();
    let ctx = BenchContext::new(&sh, &options, NonZeroUsize::MIN);
    let b = Barrier::new(1);
    let bar = if barrier { Some(&b) } else { None };
    let mut count_input = |t: &Tok| count_tok(t);
    let info = match which {
        0 => {
            unsafe { C.has_out = true; C.input_drop = true; }
            let rec = ctx.sample_recorder(
                gen_tok,
                |x: &UnsafeCell<MaybeUninit<Tok>>| unsafe { let t = (*x.get()).assume_init_mut(); use_tok(t.id); Out { id: t.id } },
                |x: &UnsafeCell<MaybeUninit<Tok>>| unsafe { (*x.get()).assume_init_drop() },
            );
            let ([a, e], info) = rec(s, bar, &mut count_input);
            assert!(a <= e);
            info
        }
        1 => {
            unsafe { C.has_out = true; C.by_value = true; }
            let rec = ctx.sample_recorder(
                gen_tok,
                |x: &UnsafeCell<MaybeUninit<Tok>>| unsafe {
                    let t = x.get().read().assume_init();
                    use_tok(t.id);
                    let id = t.id;
                    std::mem::forget(t);
                    Out { id }
                },
                |_x: &UnsafeCell<MaybeUninit<Tok>>| {},
            );
            let ([a, e], info) = rec(s, bar, &mut count_input);
            assert!(a <= e);
            info
        }
        _ => {
            unsafe { C.input_drop = true; }
            let rec = ctx.sample_recorder(
                gen_tok,
                |x: &UnsafeCell<MaybeUninit<Tok>>| unsafe { let t = (*x.get()).assume_init_mut(); use_tok(t.id); t.pad },
                |x: &UnsafeCell<MaybeUninit<Tok>>| unsafe { (*x.get()).assume_init_drop() },
            );
            let ([a, e], info) = rec(s, bar, &mut count_input);
            assert!(a <= e);
            info
        }
    };
    unsafe {
        assert!(G.phase == 2);
        assert_eq!(G.sample_counted as usize, s);
        all_terminal(s as u8);
        // C02: the returned allocation info is exactly the timed section's: s x tally_alloc(11)
        assert_eq!(info.tallies.get(AllocOp::Alloc).count, s as u64);
        assert_eq!(info.tallies.get(AllocOp::Alloc).size, 11 * s as u64);
        assert_eq!(info.tallies.get(AllocOp::Dealloc).count, 0);
        assert_eq!(info.max_count, s as i64);
        assert_eq!(info.max_size, 11 * s as i64);
        if barrier {
            assert!(G.waits == 3);
            assert!(!G.tls_dirty_at_wait2);
        }
    }
    kani::cover!(s == smax);
    kani::cover!(s == 0);
    std::mem::forget(ctx);
}

// @cell props=C01,C02 tier=quick kind=core timeout=1800 mem=26 cls=K
// @desc sample recorder called directly, by-reference/slot path, sample size symbolic 0..=2, an input counter attached:
// @desc every input is shown exactly once to the counter before the start timestamp, then used once, output dropped,
// @desc input dropped; the returned allocation info holds exactly the timed section's operations
mon_stubs! {
    #[kani::unwind(6)]
    fn c01_recorder_refs_counted() { recorder_direct(0, 2, false) }
}

// @cell props=C01,C02 tier=thorough kind=core timeout=2400 mem=30 cls=K
// @desc the same with sample size symbolic 0..=3 (11.6 M variables / 50 M clauses: needs more than 14 GB)
mon_stubs! {
    #[kani::unwind(6)]
    fn c01_recorder_refs_counted_s3() { recorder_direct(0, 3, false) }
}

// @cell props=C01,C02 tier=quick kind=core timeout=1800 mem=26 cls=K
// @desc sample recorder called directly, by-value/slot path, sample size symbolic 0..=3, input counter attached
mon_stubs! {
    #[kani::unwind(6)]
    fn c01_recorder_values_counted() { recorder_direct(1, 3, false) }
}

// @cell props=C01,C02 tier=quick kind=core timeout=1800 mem=26 cls=K
// @desc sample recorder called directly, by-reference/inputs-only path, sample size symbolic 0..=3, input counter attached
mon_stubs! {
    #[kani::unwind(6)]
    fn c01_recorder_refs_inputs_only_counted() { recorder_direct(2, 3, false) }
}

/// Zero-sized fast path of the recorder with an input counter attached (identity replaced by counters).
fn recorder_direct_zst(smax: usize) {
    let s: usize = kani::any();
    kani::assume(s <= smax);
    unsafe {
        G.rounds = 1;
        G.tasks = 1;
    }
    let sh = shared(Action::Bench);
    let options = BenchOptions::default();
    let ctx = BenchContext::new(&sh, &options, NonZeroUsize::MIN);
    let mut count_input = |_z: &ZstIn| unsafe {
        assert!(G.phase == 0, "input counted inside or after the timed section");
        assert!(G.sample_counted < G.gens as u8, "input shown to the counter before it was generated");
        G.sample_counted += 1;
    };
    let rec = ctx.sample_recorder(
        || unsafe { assert!(G.phase == 0); G.gens += 1; ZstIn },
        |_x: &UnsafeCell<MaybeUninit<ZstIn>>| unsafe { assert!(G.phase == 1); G.calls += 1; G.sample_calls += 1; 5u8 },
        |x: &UnsafeCell<MaybeUninit<ZstIn>>| unsafe { (*x.get()).assume_init_drop() },
    );
    let ([a, e], _info) = rec(s, None, &mut count_input);
    assert!(a <= e);
    unsafe {
        assert!(G.phase == 2);
        assert_eq!(G.gens as usize, s);
        assert_eq!(G.sample_counted as usize, s, "every generated input is shown once to the input counter");
        assert_eq!(G.calls as usize, s);
        assert_eq!(G.zst_in_drops as usize, s);
        assert_eq!(G.magic, MAGIC);
    }
    kani::cover!(s == smax);
    kani::cover!(s == 0);
    std::mem::forget(ctx);
}

// @cell props=C01,C05 tier=quick kind=core timeout=1800 mem=14 cls=K ignore_re=write_bytes::<.*(ZstIn|ZstOut)>\|memset.destination.region.writeable
// @desc sample recorder called directly, zero-sized fast path (zero-sized input with destructor, plain output), sample
// @desc size symbolic 0..=3, an input counter attached: every generated input is shown exactly once to the counter
// @desc before the start timestamp, used by one call, dropped once after the end timestamp
mon_stubs! {
    #[kani::unwind(6)]
    fn c01_recorder_zst_counted() { recorder_direct_zst(3) }
}

// @cell props=C08,C02 tier=quick kind=core timeout=1800 mem=28 cls=K
// @desc sample recorder with a Barrier (as on T >= 2 threads), by-reference/slot path, sample size symbolic 0..=2:
// @desc exactly three rendezvous; inputs generated and counted before the first; tally cleared before the second;
// @desc timed section after the second; allocation info snapshot excludes the drops, which follow the third
mon_stubs! {
    #[kani::unwind(6)]
    fn c08_recorder_barrier_protocol() { recorder_direct(0, 2, true) }
}

// @cell props=C08,C02 tier=quick kind=core timeout=2400 mem=28 cls=K
// @desc same with the by-value/slot path
mon_stubs! {
    #[kani::unwind(6)]
    fn c08_recorder_barrier_protocol_values() { recorder_direct(1, 2, true) }
}

// @cell props=C08,C02 tier=quick kind=core timeout=2400 mem=28 cls=K
// @desc same with the by-reference/inputs-only path
mon_stubs! {
    #[kani::unwind(6)]
    fn c08_recorder_barrier_protocol_inputs_only() { recorder_direct(2, 2, true) }
}
