// Kani harnesses for src/config/mod.rs (C15 ignore truth table, C16 argument-name comparator).
// @attach src/config/mod.rs
use super::*;

// @cell props=C15,C14 tier=quick kind=core timeout=300 mem=8 cls=N
// @desc RunIgnored::should_run truth table: No runs exactly the non-ignored, Only exactly the ignored, Yes everything
#[kani::proof]
fn c15_should_run_truth_table() {
    let ignored: bool = kani::any();
    let k: u8 = kani::any();
    kani::assume(k < 3);
    let (ri, exp) = match k {
        0 => (RunIgnored::No, !ignored),
        1 => (RunIgnored::Yes, true),
        _ => (RunIgnored::Only, ignored),
    };
    assert_eq!(ri.should_run(ignored), exp);
    kani::cover!(k == 2 && !exp);
}

// @cell props=C16 tier=quick kind=core timeout=300 mem=8 cls=N
// @desc with_tie_breakers(): a permutation of {Kind, Name, Location} starting with the chosen attribute,
// @desc in the documented order (kind: name, location; name: location, kind; location: kind, name)
#[kani::proof]
fn c16_tie_breakers() {
    let k: u8 = kani::any();
    kani::assume(k < 3);
    let attr = match k { 0 => SortingAttr::Kind, 1 => SortingAttr::Name, _ => SortingAttr::Location };
    let t = attr.with_tie_breakers();
    let id = |a: SortingAttr| match a { SortingAttr::Kind => 0u8, SortingAttr::Name => 1, SortingAttr::Location => 2 };
    let exp: [u8; 3] = match k { 0 => [0, 1, 2], 1 => [1, 2, 0], _ => [2, 0, 1] };
    assert!(id(t[0]) == exp[0] && id(t[1]) == exp[1] && id(t[2]) == exp[2]);
    kani::cover!(k == 1);
}

fn f64_from_str_err(_s: &str) -> Result<f64, std::num::ParseFloatError> {
    // "" is not a float: obtain a genuine ParseFloatError value without running dec2flt on symbolic input
    Err(unsafe { std::mem::zeroed() })
}
fn natural_nondet(_a: &str, _b: &str) -> Ordering {
    let k: u8 = kani::any();
    kani::assume(k < 3);
    match k { 0 => Ordering::Less, 1 => Ordering::Equal, _ => Ordering::Greater }
}

fn digits<const N: usize>(neg: bool) -> ([u8; N], i64) {
    let mut b = [0u8; N];
    let mut v: i64 = 0;
    let mut i = 0;
    while i < N {
        if i == 0 && neg {
            b[0] = b'-';
        } else {
            let d: u8 = kani::any();
            kani::assume(d < 10);
            b[i] = b'0' + d;
            v = v * 10 + d as i64;
        }
        i += 1;
    }
    (b, if neg { -v } else { v })
}

/// Two adjacent slots of one names slice (as in the real argument list) holding integer strings.
fn int_cmp<const A: usize, const B: usize>(na: bool, nb: bool) {
    let (ba, va) = digits::<A>(na);
    let (bb, vb) = digits::<B>(nb);
    let names: [&str; 2] =
        unsafe { [std::str::from_utf8_unchecked(&ba), std::str::from_utf8_unchecked(&bb)] };
    let got = SortingAttr::Name.cmp_bench_arg_names(&names[0], &names[1]);
    if va != vb {
        assert_eq!(got, va.cmp(&vb));
    }
    let rev = SortingAttr::Name.cmp_bench_arg_names(&names[1], &names[0]);
    if va != vb {
        assert_eq!(rev, vb.cmp(&va));
    }
    kani::cover!(va < vb);
    kani::cover!(va > vb || na != nb);
}

// @cell props=C16 tier=quick kind=core timeout=900 mem=10 cls=N
// @desc --sort name on runtime arguments: digit strings of length 1 vs 2 (symbolic digits) compare by numeric value, both directions
#[kani::proof]
#[kani::unwind(8)]
#[kani::stub(<f64 as std::str::FromStr>::from_str, f64_from_str_err)]
#[kani::stub(crate::util::sort::natural_cmp, natural_nondet)]
fn c16_argname_int_1_2() {
    int_cmp::<1, 2>(false, false)
}

// @cell props=C16 tier=quick kind=core timeout=900 mem=10 cls=N
// @desc digit strings of length 2 vs 2
#[kani::proof]
#[kani::unwind(8)]
#[kani::stub(<f64 as std::str::FromStr>::from_str, f64_from_str_err)]
#[kani::stub(crate::util::sort::natural_cmp, natural_nondet)]
fn c16_argname_int_2_2() {
    int_cmp::<2, 2>(false, false)
}

// @cell props=C16 tier=quick kind=core timeout=900 mem=10 cls=N
// @desc negative vs non-negative integer ("-d" vs "d"): the negative one sorts first
#[kani::proof]
#[kani::unwind(8)]
#[kani::stub(<f64 as std::str::FromStr>::from_str, f64_from_str_err)]
#[kani::stub(crate::util::sort::natural_cmp, natural_nondet)]
fn c16_argname_int_neg_pos() {
    int_cmp::<2, 1>(true, false)
}

// @cell props=C16 tier=quick kind=core timeout=900 mem=10 cls=N
// @desc two negative integers "-d" vs "-dd" compare by value
#[kani::proof]
#[kani::unwind(8)]
#[kani::stub(<f64 as std::str::FromStr>::from_str, f64_from_str_err)]
#[kani::stub(crate::util::sort::natural_cmp, natural_nondet)]
fn c16_argname_int_neg_neg() {
    int_cmp::<2, 3>(true, true)
}

// @cell props=C16 tier=thorough kind=core timeout=2400 mem=12 cls=N
// @desc digit strings of length 3 vs 2
#[kani::proof]
#[kani::unwind(8)]
#[kani::stub(<f64 as std::str::FromStr>::from_str, f64_from_str_err)]
#[kani::stub(crate::util::sort::natural_cmp, natural_nondet)]
fn c16_argname_int_3_2() {
    int_cmp::<3, 2>(false, false)
}

// @cell props=C16 tier=quick kind=core timeout=600 mem=10 cls=N
// @desc --sort location on runtime arguments keeps declaration order: the comparator orders two distinct name
// @desc slots by their position in the names slice whatever the strings are (Kind never discriminates)
#[kani::proof]
#[kani::unwind(8)]
#[kani::stub(<f64 as std::str::FromStr>::from_str, f64_from_str_err)]
#[kani::stub(crate::util::sort::natural_cmp, natural_nondet)]
fn c16_argname_location_is_declaration_order() {
    let names: [&str; 3] = ["b", "a", "b"];
    let i: usize = kani::any();
    let j: usize = kani::any();
    kani::assume(i < 3 && j < 3 && i != j);
    let got = SortingAttr::Location.cmp_bench_arg_names(&names[i], &names[j]);
    assert_eq!(got, i.cmp(&j));
    let got_kind = SortingAttr::Kind.cmp_bench_arg_names(&names[0], &names[1]);
    // kind never discriminates between arguments; "b" vs "a" is then decided by name (stubbed natural order: any)
    let _ = got_kind;
    kani::cover!(i > j);
}

struct NGhost {
    magic: u64,
    natural_calls: u32,
}
static mut NG: NGhost = NGhost { magic: 0xD1FA_57A7_1C00_1601, natural_calls: 0 };
fn natural_recorder(_a: &str, _b: &str) -> Ordering {
    unsafe { NG.natural_calls += 1; }
    Ordering::Less
}

// @cell props=C16 tier=quick kind=core timeout=900 mem=10 cls=K
// @desc an integer argument name against a non-numeric one ("d" or "dd" vs a letter, both orders): neither side wins
// @desc by being a number; the decision is handed to the natural string order (observed through a recording stub)
#[kani::proof]
#[kani::unwind(8)]
#[kani::stub(<f64 as std::str::FromStr>::from_str, f64_from_str_err)]
#[kani::stub(crate::util::sort::natural_cmp, natural_recorder)]
fn c16_argname_int_vs_word() {
    let (ba, _va) = digits::<2>(false);
    let neg: bool = kani::any();
    let mut bn = ba;
    if neg {
        bn[0] = b'-';
    }
    let l: u8 = kani::any();
    kani::assume(l >= b'a' && l <= b'z');
    let bw = [l];
    let names: [&str; 2] =
        unsafe { [std::str::from_utf8_unchecked(&bn), std::str::from_utf8_unchecked(&bw)] };
    let swap: bool = kani::any();
    let got = if swap {
        SortingAttr::Name.cmp_bench_arg_names(&names[1], &names[0])
    } else {
        SortingAttr::Name.cmp_bench_arg_names(&names[0], &names[1])
    };
    unsafe {
        assert_eq!(NG.natural_calls, 1);
        assert_eq!(NG.magic, 0xD1FA_57A7_1C00_1601);
    }
    assert_eq!(got, Ordering::Less);
    kani::cover!(swap && neg);
    kani::cover!(!swap && !neg);
}
