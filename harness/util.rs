// Kani harnesses for src/util/mod.rs (C05 slice_middle, C17 slice_ptr_index).
// @attach src/util/mod.rs
use super::*;

// @cell props=C05 tier=quick kind=core timeout=300 mem=8 cls=N
// @desc slice_middle on a slice of symbolic length 0..=7: empty for 0, the single middle element for odd
// @desc lengths, the two middle elements for even lengths (positions len/2-1 and len/2)
#[kani::proof]
#[kani::unwind(9)]
fn c05_slice_middle() {
    let a: [u8; 7] = [10, 11, 12, 13, 14, 15, 16];
    let len: usize = kani::any();
    kani::assume(len <= 7);
    let m = slice_middle(&a[..len]);
    if len == 0 {
        assert!(m.is_empty());
    } else if len % 2 == 1 {
        assert!(m.len() == 1 && m[0] == 10 + (len / 2) as u8);
    } else {
        assert!(m.len() == 2 && m[0] == 10 + (len / 2 - 1) as u8 && m[1] == 10 + (len / 2) as u8);
    }
    kani::cover!(len == 6);
    kani::cover!(len == 7);
}

// @cell props=C05,C17 tier=quick kind=core timeout=300 mem=8 cls=N
// @desc slice_ptr_index returns i for a pointer to element i (element sizes 1, 4 and 16 bytes)
#[kani::proof]
fn c17_slice_ptr_index() {
    let i: usize = kani::any();
    kani::assume(i < 5);
    let a = [0u8; 5];
    assert_eq!(slice_ptr_index(&a, &a[i]), i);
    let b = [0u32; 5];
    assert_eq!(slice_ptr_index(&b, &b[i]), i);
    let c = [0u128; 5];
    assert_eq!(slice_ptr_index(&c, &c[i]), i);
    let names: [&str; 5] = ["a", "b", "c", "d", "e"];
    let r: &&str = &names[i];
    assert_eq!(slice_ptr_index(&names, r), i);
    kani::cover!(i == 4);
}
