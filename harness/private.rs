// Kani harnesses for src/private.rs (C12 shrink_array, C15 thread-list normalisation).
// @attach src/private.rs
use super::*;

// @cell props=C15 tier=quick kind=core timeout=600 mem=8 cls=N
// @desc threads = [a, b, c] with symbolic entries < 8: the leaked list is strictly increasing (sorted, duplicates
// @desc collapsed) and contains exactly the given values
#[kani::proof]
#[kani::unwind(6)]
fn c15_into_threads_sorted_dedup() {
    let v: [usize; 3] = [kani::any(), kani::any(), kani::any()];
    kani::assume(v[0] < 8 && v[1] < 8 && v[2] < 8);
    let t = IntoThreads::into_threads(v);
    let s: &[usize] = &t;
    assert!(s.len() >= 1 && s.len() <= 3);
    let mut i = 1;
    while i < s.len() {
        assert!(s[i - 1] < s[i]);
        i += 1;
    }
    let mut i = 0;
    while i < 3 {
        let mut found = false;
        let mut j = 0;
        while j < s.len() {
            if s[j] == v[i] { found = true; }
            j += 1;
        }
        assert!(found);
        i += 1;
    }
    let mut j = 0;
    while j < s.len() {
        assert!(s[j] == v[0] || s[j] == v[1] || s[j] == v[2]);
        j += 1;
    }
    kani::cover!(s.len() == 1);
    kani::cover!(s.len() == 3 && v[0] > v[1] && v[1] > v[2]);
    std::mem::forget(t);
}

// @cell props=C15 tier=quick kind=core timeout=300 mem=8 cls=N
// @desc scalar forms: threads = n gives [n] for any usize (0 kept as 0 = available parallelism),
// @desc threads = true gives [0], threads = false gives [1]
#[kani::proof]
#[kani::unwind(4)]
fn c15_into_threads_scalar() {
    let n: usize = kani::any();
    let t = IntoThreads::into_threads(n);
    assert!(t.len() == 1 && t[0] == n);
    let b: bool = kani::any();
    let tb = IntoThreads::into_threads(b);
    assert!(tb.len() == 1 && tb[0] == if b { 0 } else { 1 });
    kani::cover!(n == 0);
    kani::cover!(n > 2);
    std::mem::forget(t);
    std::mem::forget(tb);
}

// @cell props=C12 tier=quick kind=core timeout=300 mem=8 cls=N
// @desc shrink_array (cap on external consts lists): first OUT elements for OUT <= IN, None for OUT > IN
#[kani::proof]
#[kani::unwind(12)]
fn c12_shrink_array() {
    let a: [u16; 5] = kani::any();
    let same: Option<[u16; 5]> = shrink_array(a);
    assert!(same == Some(a));
    let less: Option<[u16; 2]> = shrink_array(a);
    assert!(less == Some([a[0], a[1]]));
    let none: Option<[u16; 0]> = shrink_array(a);
    assert!(none == Some([]));
    let more: Option<[u16; 6]> = shrink_array(a);
    assert!(more.is_none());
    kani::cover!(a[0] != a[1]);
}
