// Kani harnesses for src/util/sort.rs (C16: natural order kernels).
// @attach src/util/sort.rs
use super::*;

fn digits<const N: usize>() -> ([u8; N], u32) {
    let mut b = [0u8; N];
    let mut v = 0u32;
    let mut i = 0;
    while i < N {
        let d: u8 = kani::any();
        kani::assume(d < 10);
        b[i] = b'0' + d;
        v = v * 10 + d as u32;
        i += 1;
    }
    (b, v)
}

fn cmp_int_spec<const A: usize, const B: usize>() {
    let (ba, va) = digits::<A>();
    let (bb, vb) = digits::<B>();
    let (sa, sb) = unsafe { (std::str::from_utf8_unchecked(&ba), std::str::from_utf8_unchecked(&bb)) };
    assert_eq!(cmp_int(sa, sb), va.cmp(&vb));
    kani::cover!(va == vb); // equal values, possibly through leading zeros
    kani::cover!(va < vb);
    kani::cover!(va > vb);
}

// @cell props=C16 tier=quick kind=core timeout=900 mem=10 cls=N
// @desc cmp_int on digit runs of length 2 vs 3 (leading zeros allowed, digits symbolic) equals numeric comparison
#[kani::proof]
#[kani::unwind(8)]
fn c16_cmp_int_2_3() {
    cmp_int_spec::<2, 3>()
}

// @cell props=C16 tier=quick kind=core timeout=900 mem=10 cls=N
// @desc cmp_int on digit runs of length 3 vs 1
#[kani::proof]
#[kani::unwind(8)]
fn c16_cmp_int_3_1() {
    cmp_int_spec::<3, 1>()
}

// @cell props=C16 tier=thorough kind=core timeout=2400 mem=12 cls=N
// @desc cmp_int on digit runs of length 3 vs 3
#[kani::proof]
#[kani::unwind(8)]
fn c16_cmp_int_3_3() {
    cmp_int_spec::<3, 3>()
}

fn any_char() -> u8 {
    // tiny alphabet: two digits classes boundaries, a letter and punctuation around the digit range
    let k: u8 = kani::any();
    kani::assume(k < 5);
    [b'0', b'1', b'9', b'a', b'<'][k as usize]
}

fn ord_id(o: Ordering) -> i8 {
    match o { Ordering::Less => -1, Ordering::Equal => 0, Ordering::Greater => 1 }
}

// @cell props=C16 tier=quick kind=core timeout=1500 mem=12 cls=N
// @desc natural_cmp on 1-byte strings over {0,1,9,a,<}: antisymmetric, Equal only for identical strings,
// @desc two digits compare by value
#[kani::proof]
#[kani::unwind(6)]
fn c16_natural_cmp_1x1() {
    let a = [any_char()];
    let b = [any_char()];
    let (sa, sb) = unsafe { (std::str::from_utf8_unchecked(&a), std::str::from_utf8_unchecked(&b)) };
    let ab = natural_cmp(sa, sb);
    let ba = natural_cmp(sb, sa);
    assert_eq!(ord_id(ab), -ord_id(ba));
    assert_eq!(ab == Ordering::Equal, a[0] == b[0]);
    if a[0].is_ascii_digit() && b[0].is_ascii_digit() {
        assert_eq!(ab, a[0].cmp(&b[0]));
    }
    kani::cover!(ab == Ordering::Less);
    kani::cover!(ab == Ordering::Greater && !a[0].is_ascii_digit());
}

// @cell props=C16 tier=thorough kind=attempt timeout=900 mem=16 cls=N
// @desc natural_cmp on 2-byte vs 2-byte strings over {0,1,9,a,<}: antisymmetry; two digit runs compare by value
#[kani::proof]
#[kani::unwind(7)]
fn c16_natural_cmp_2x2() {
    let a = [any_char(), any_char()];
    let b = [any_char(), any_char()];
    let (sa, sb) = unsafe { (std::str::from_utf8_unchecked(&a), std::str::from_utf8_unchecked(&b)) };
    let ab = natural_cmp(sa, sb);
    let ba = natural_cmp(sb, sa);
    assert_eq!(ord_id(ab), -ord_id(ba));
    if a[0].is_ascii_digit() && a[1].is_ascii_digit() && b[0].is_ascii_digit() && b[1].is_ascii_digit() {
        let va = (a[0] - b'0') as u32 * 10 + (a[1] - b'0') as u32;
        let vb = (b[0] - b'0') as u32 * 10 + (b[1] - b'0') as u32;
        assert_eq!(ab, va.cmp(&vb));
    }
    kani::cover!(ab == Ordering::Less);
}

// @cell props=C16 tier=thorough kind=core timeout=2400 mem=12 cls=N
// @desc "a" + 1 symbolic digit vs "a" + 1 symbolic digit: ordered by the digit's value, Equal iff identical
#[kani::proof]
#[kani::unwind(8)]
fn c16_natural_cmp_prefix_digit_1() {
    let (da, va) = digits::<1>();
    let (db, vb) = digits::<1>();
    let a = [b'a', da[0]];
    let b = [b'a', db[0]];
    let (sa, sb) = unsafe { (std::str::from_utf8_unchecked(&a), std::str::from_utf8_unchecked(&b)) };
    assert_eq!(natural_cmp(sa, sb), va.cmp(&vb));
    kani::cover!(va < vb);
}

// @cell props=C16 tier=thorough kind=core timeout=2400 mem=12 cls=N
// @desc the tokenizer splits "<letter><digits...>" names at the kind change: "a" + 2 symbolic digits vs "a" + 1
// @desc symbolic digit compare by the numeric value of the digit run (A<4> before A<16> rule)
#[kani::proof]
#[kani::unwind(8)]
fn c16_natural_cmp_prefix_digits() {
    let (d2, v2) = digits::<2>();
    let (d1, v1) = digits::<1>();
    let a = [b'a', d2[0], d2[1]];
    let b = [b'a', d1[0]];
    let (sa, sb) = unsafe { (std::str::from_utf8_unchecked(&a), std::str::from_utf8_unchecked(&b)) };
    let got = natural_cmp(sa, sb);
    if v2 != v1 {
        assert_eq!(got, v2.cmp(&v1));
    }
    kani::cover!(v2 < v1);
    kani::cover!(v2 > v1);
}
