// Kani harnesses for src/entry/tree.rs (C16: comparators on tree nodes, sorting only permutes).
// @attach src/entry/tree.rs
use super::*;
use crate::entry::{BenchEntry, BenchEntryRunner};

fn bench_fn(_b: crate::Bencher) {}

/// The natural string order is decided in its own cells (sort.rs); here it is an arbitrary verdict, and the
/// assertions below only concern cases that are decided before names are consulted.
fn natural_any(_a: &str, _b: &str) -> Ordering {
    let k: u8 = kani::any();
    kani::assume(k < 3);
    match k { 0 => Ordering::Less, 1 => Ordering::Equal, _ => Ordering::Greater }
}

fn leaf_entry(name: &'static str, line: u32, col: u32) -> BenchEntry {
    BenchEntry {
        meta: EntryMeta {
            display_name: name,
            raw_name: name,
            module_path: "m",
            location: EntryLocation { file: "f", line, col },
            bench_options: None,
        },
        bench: BenchEntryRunner::Plain(bench_fn),
    }
}

// @cell props=C16 tier=quick kind=core timeout=900 mem=12 cls=K ignore_re=same.object.violation
// @desc --sort kind between a benchmark and a module with symbolic positions: the benchmark always comes first;
// @desc two benchmarks at symbolic positions under --sort location compare by (line, column) whenever the positions
// @desc differ, and the reverse comparison is the reverse ordering; an entry compares Equal with itself
#[kani::proof]
#[kani::stub(crate::util::sort::natural_cmp, natural_any)]
#[kani::unwind(4)]
fn c16_kind_before_and_location_pairs() {
    let l: [u32; 2] = [kani::any(), kani::any()];
    let c: [u32; 2] = [kani::any(), kani::any()];
    let e0 = leaf_entry("a", l[0], c[0]);
    let e1 = leaf_entry("b", l[1], c[1]);
    let a = EntryTree::Leaf { entry: AnyBenchEntry::Bench(&e0), args: None };
    let b = EntryTree::Leaf { entry: AnyBenchEntry::Bench(&e1), args: None };
    let by_loc = a.cmp_by_attr(&b, SortingAttr::Location);
    if (l[0], c[0]) < (l[1], c[1]) {
        assert!(by_loc == Ordering::Less);
    } else if (l[0], c[0]) > (l[1], c[1]) {
        assert!(by_loc == Ordering::Greater);
    }
    // (at the same position the entries' addresses break the tie: comparing addresses of distinct objects has no
    // defined outcome in CBMC's memory model, so that case is not asserted)
    if (l[0], c[0]) != (l[1], c[1]) {
        assert!(b.cmp_by_attr(&a, SortingAttr::Location) == by_loc.reverse());
    }
    assert!(a.cmp_by_attr(&a, SortingAttr::Location) == Ordering::Equal);
    let module = EntryTree::Parent { raw_name: "0", group: None, children: Vec::from([b]) };
    assert!(a.cmp_by_attr(&module, SortingAttr::Kind) == Ordering::Less);
    assert!(module.cmp_by_attr(&a, SortingAttr::Kind) == Ordering::Greater);
    kani::cover!(l[0] == l[1] && c[0] > c[1]);
    std::mem::forget(module);
    std::mem::forget(a);
}

// @cell props=C16 tier=thorough kind=attempt timeout=900 mem=16 cls=K ignore_re=same.object.violation
// @desc sort_by_attr(location, reverse symbolic) on three sibling benchmarks at symbolic distinct lines: afterwards
// @desc the lines are strictly ascending (descending under --sortr) and the three entries are still exactly the three
// @desc given ones (nothing lost or duplicated)
#[kani::proof]
#[kani::stub(crate::util::sort::natural_cmp, natural_any)]
#[kani::unwind(5)]
fn c16_sort_three_by_location_permutes() {
    let l: [u32; 3] = [kani::any(), kani::any(), kani::any()];
    kani::assume(l[0] != l[1] && l[1] != l[2] && l[0] != l[2]);
    let e0 = leaf_entry("a", l[0], 1);
    let e1 = leaf_entry("b", l[1], 1);
    let e2 = leaf_entry("c", l[2], 1);
    let mut tree = [
        EntryTree::Leaf { entry: AnyBenchEntry::Bench(&e0), args: None },
        EntryTree::Leaf { entry: AnyBenchEntry::Bench(&e1), args: None },
        EntryTree::Leaf { entry: AnyBenchEntry::Bench(&e2), args: None },
    ];
    let reverse: bool = kani::any();
    EntryTree::sort_by_attr(&mut tree, SortingAttr::Location, reverse);
    let line = |t: &EntryTree| t.meta().unwrap().location.line;
    let (x, y, z) = (line(&tree[0]), line(&tree[1]), line(&tree[2]));
    if reverse {
        assert!(x > y && y > z);
    } else {
        assert!(x < y && y < z);
    }
    // permutation: as the lines are distinct, each given line occurs exactly once
    let mut i = 0;
    while i < 3 {
        let n = (x == l[i]) as u8 + (y == l[i]) as u8 + (z == l[i]) as u8;
        assert!(n == 1);
        i += 1;
    }
    kani::cover!(reverse && l[0] < l[1] && l[1] < l[2]);
    kani::cover!(!reverse && l[2] < l[0] && l[0] < l[1]);
    std::mem::forget(tree);
}

// (attempt-only: `EntryTree::location` recurses through flat_map/min over the children; CBMC's symex does not fold the
// children's variants and the query did not finish in 900 s - seeded change C16-D (first child instead of earliest)
// is therefore not caught)
// @cell props=C16 tier=thorough kind=attempt timeout=900 mem=12 cls=K ignore_re=same.object.violation
// @desc --sort location between a plain module (no group entry of its own) holding two benchmarks and a sibling
// @desc benchmark, all three source positions (line, column) symbolic: the module is placed by the EARLIEST position
// @desc among its children, whichever child was registered first; the reverse comparison is the reverse ordering
#[kani::proof]
#[kani::stub(crate::util::sort::natural_cmp, natural_any)]
#[kani::unwind(4)]
fn c16_module_sorts_by_earliest_child_location() {
    let l: [u32; 3] = [kani::any(), kani::any(), kani::any()];
    let c: [u32; 3] = [kani::any(), kani::any(), kani::any()];
    let e0 = leaf_entry("a", l[0], c[0]);
    let e1 = leaf_entry("b", l[1], c[1]);
    let e2 = leaf_entry("c", l[2], c[2]);
    let module = EntryTree::Parent {
        raw_name: "z",
        group: None,
        children: Vec::from([
            EntryTree::Leaf { entry: AnyBenchEntry::Bench(&e0), args: None },
            EntryTree::Leaf { entry: AnyBenchEntry::Bench(&e1), args: None },
        ]),
    };
    let sibling = EntryTree::Leaf { entry: AnyBenchEntry::Bench(&e2), args: None };
    let fwd = module.cmp_by_attr(&sibling, SortingAttr::Location);
    let bwd = sibling.cmp_by_attr(&module, SortingAttr::Location);
    let p0 = (l[0], c[0]);
    let p1 = (l[1], c[1]);
    let earliest = if p0 <= p1 { p0 } else { p1 };
    let sib = (l[2], c[2]);
    if earliest < sib {
        assert!(fwd == Ordering::Less);
    } else if earliest > sib {
        assert!(fwd == Ordering::Greater);
    } else {
        // same position: kind decides next - the benchmark comes before the module
        assert!(fwd == Ordering::Greater);
    }
    assert!(bwd == fwd.reverse());
    kani::cover!(p1 < p0 && p1 < sib && sib < p0);
    kani::cover!(earliest == sib);
    kani::cover!(l[0] == l[2] && c[0] < c[2] && p1 > sib);
    std::mem::forget(module);
    std::mem::forget(sibling);
}

