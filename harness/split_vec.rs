// Kani harnesses for src/util/split_vec.rs (C13: filter storage).
// @attach src/util/split_vec.rs
use super::*;

fn run<const N: usize>() {
    let mut v = SplitVec::<u8>::default();
    let after: [bool; 4] = [kani::any(), kani::any(), kani::any(), kani::any()];
    let mut i = 0;
    while i < N {
        v.insert(10 + i as u8, after[i]);
        i += 1;
    }
    let all = v.all();
    let split = v.split_index();
    assert_eq!(all.len(), N);
    assert!(split <= N);
    // before the split: exactly the items inserted with after_split = false (as a set; ids are unique)
    let mut n_before = 0;
    let mut i = 0;
    while i < N {
        if !after[i] { n_before += 1; }
        let mut pos = N;
        let mut j = 0;
        while j < N {
            if all[j] == 10 + i as u8 {
                assert!(pos == N); // no duplicate
                pos = j;
            }
            j += 1;
        }
        assert!(pos < N); // nothing lost
        assert_eq!(pos < split, !after[i]);
        i += 1;
    }
    assert_eq!(split, n_before);
    kani::cover!(split > 0 && split < N);
}

// @cell props=C13 tier=quick kind=core timeout=600 mem=8 cls=N
// @desc 3 inserts with symbolic sides: nothing lost or duplicated, items before the split are exactly those
// @desc inserted as 'before' (skip filters), split index = their number
#[kani::proof]
#[kani::unwind(6)]
fn c13_split_vec_3() {
    run::<3>()
}

// @cell props=C13 tier=quick kind=core timeout=900 mem=8 cls=N
// @desc 4 inserts with symbolic sides
#[kani::proof]
#[kani::unwind(7)]
fn c13_split_vec_4() {
    run::<4>()
}
