// Kani harnesses for src/time/timer.rs (C11: precision of a uniformly stepping clock).
// @attach src/time/timer.rs
use super::*;

struct Ghost {
    magic: u64,
    clock: u64,
    step: u64,
    reads: u32,
    stalls: u32,
    max_stalls: u32,
}
static mut G: Ghost = Ghost { magic: 0xD1FA_57A7_1C00_1102, clock: 0, step: 1, reads: 0, stalls: 0, max_stalls: 0 };

/// A clock that advances in uniform steps of `step` ticks per reading; optionally the second reading may be
/// equal to the first (a clock coarser than the cost of reading it: the first sample is then zero-length).
fn tick() -> u64 {
    unsafe {
        G.reads += 1;
        assert!(G.reads <= 420, "measure_precision did not settle on a uniformly stepping clock");
        // only the second reading may stall (= the very first sample may be zero-length)
        let stall: bool = G.reads == 2 && G.stalls < G.max_stalls && kani::any();
        if stall {
            G.stalls += 1;
        } else {
            G.clock += G.step;
        }
        G.clock
    }
}
fn ts_start() -> TscTimestamp {
    TscTimestamp { value: tick() }
}
fn ts_end() -> TscTimestamp {
    TscTimestamp { value: tick() }
}
fn dur_stub(this: TscTimestamp, earlier: TscTimestamp, _f: NonZeroU64) -> FineDuration {
    FineDuration { picos: this.value.checked_sub(earlier.value).unwrap_or(0) as u128 }
}
fn nop() {}

fn precision(max_stalls: u32) {
    let step: u32 = kani::any();
    kani::assume(step >= 1 && step <= (1 << 20));
    unsafe {
        G.step = step as u64;
        G.max_stalls = max_stalls;
    }
    let timer = Timer::Tsc { frequency: NonZeroU64::new(1_000_000_000_000).unwrap() };
    let p = timer.measure_precision();
    assert_eq!(p.picos, step as u128);
    unsafe {
        assert_eq!(G.magic, 0xD1FA_57A7_1C00_1102);
        kani::cover!(G.stalls == max_stalls);
        kani::cover!(G.stalls == 0);
    }
}

// @cell props=C11 tier=thorough kind=attempt timeout=1500 mem=24 cls=K unwindre=measure_precision\.\d+$:102
// @desc Timer::measure_precision on a clock advancing by a symbolic uniform step (1..=2^20 ticks at 10^12 Hz, i.e.
// @desc ps) per reading: the reported precision equals the step
#[kani::proof]
#[kani::unwind(3)]
#[kani::stub(crate::time::timestamp::tsc::TscTimestamp::start, ts_start)]
#[kani::stub(crate::time::timestamp::tsc::TscTimestamp::end, ts_end)]
#[kani::stub(crate::time::timestamp::tsc::TscTimestamp::duration_since, dur_stub)]
#[kani::stub(crate::time::fence::full_fence, nop)]
#[kani::stub(crate::time::fence::compiler_fence, nop)]
fn c11_precision_uniform_step() {
    precision(0)
}

// @cell props=C11 tier=thorough kind=attempt timeout=1500 mem=24 cls=K unwindre=measure_precision\.\d+$:102
// @desc the same with a possibly zero-length first sample (second reading equal to the first): zero samples are
// @desc discarded, the precision is still the step
#[kani::proof]
#[kani::unwind(3)]
#[kani::stub(crate::time::timestamp::tsc::TscTimestamp::start, ts_start)]
#[kani::stub(crate::time::timestamp::tsc::TscTimestamp::end, ts_end)]
#[kani::stub(crate::time::timestamp::tsc::TscTimestamp::duration_since, dur_stub)]
#[kani::stub(crate::time::fence::full_fence, nop)]
#[kani::stub(crate::time::fence::compiler_fence, nop)]
fn c11_precision_uniform_step_first_zero() {
    precision(1)
}
