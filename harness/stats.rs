// Kani harnesses for BenchContext::compute_stats (C05).
// @attach src/benchmark/mod.rs
// @needs counters
use super::*;
use crate::{config::Action, counter::ItemsCount, time::Timer, util::thread::ThreadPool};

fn rs_stub() -> std::hash::RandomState {
    // hash seeds do not influence any asserted value; avoids the getrandom syscall
    unsafe { std::mem::zeroed() }
}

fn shared() -> SharedContext {
    SharedContext { action: Action::Bench, timer: Timer::Os, thread_pool: ThreadPool::new() }
}

fn no_nan(s: &Stats) {
    let chk = |t: &AllocTally<StatsSet<f64>>| {
        assert!(!t.count.fastest.is_nan() && !t.count.slowest.is_nan() && !t.count.median.is_nan() && !t.count.mean.is_nan());
        assert!(!t.size.fastest.is_nan() && !t.size.slowest.is_nan() && !t.size.median.is_nan() && !t.size.mean.is_nan());
    };
    chk(&s.max_alloc);
    for op in AllocOp::ALL {
        chk(s.alloc_tallies.get(op));
    }
}

/// Time statistics of N samples with symbolic durations (type D widened to u128) and sample size.
fn time_stats<const N: usize>(d: [u128; N], size: u32, with_const_counter: bool) {
    let sh = shared();
    let mut options = BenchOptions::default();
    let cv: u64 = kani::any();
    if with_const_counter {
        options.counters.insert(ItemsCount::new(cv));
    }
    let mut ctx = BenchContext::new(&sh, &options, NonZeroUsize::MIN);
    ctx.samples.sample_size = size;
    // exact-length Vec built from an array: CBMC then sees a constant length in the sort
    ctx.samples.time_samples = Vec::from(d.map(|p| TimeSample { duration: FineDuration { picos: p } }));
    let stats = ctx.compute_stats();

    let mut mn = u128::MAX;
    let mut mx = 0u128;
    let mut sum = 0u128;
    let mut i = 0;
    while i < N {
        let v = d[i];
        if v < mn { mn = v }
        if v > mx { mx = v }
        sum += v;
        i += 1;
    }
    let sz = size as u128;
    assert_eq!(stats.sample_count as usize, N);
    assert_eq!(stats.iter_count, N as u64 * size as u64);
    if N > 0 {
        assert_eq!(stats.time.fastest.picos, mn / sz);
        assert_eq!(stats.time.slowest.picos, mx / sz);
        assert_eq!(stats.time.mean.picos, sum / (N as u128 * sz));
        // median: k-th order statistic characterised by counting, not by sorting
        let med = stats.time.median.picos;
        let lo_rank = (N - 1) / 2; // index of lower middle in sorted order
        let hi_rank = N / 2; // index of upper middle
        // find order statistics by rank: value v with #(< v) <= rank < #(<= v)
        let mut lo_v = 0u128;
        let mut hi_v = 0u128;
        let mut i = 0;
        while i < N {
            let v = d[i];
            let mut less = 0usize;
            let mut leq = 0usize;
            let mut j = 0;
            while j < N {
                if d[j] < v { less += 1 }
                if d[j] <= v { leq += 1 }
                j += 1;
            }
            if less <= lo_rank && lo_rank < leq { lo_v = v }
            if less <= hi_rank && hi_rank < leq { hi_v = v }
            i += 1;
        }
        assert_eq!(med, ((lo_v + hi_v) / 2) / sz);
        assert!(stats.time.fastest.picos <= med && med <= stats.time.slowest.picos);
        assert!(stats.time.fastest.picos <= stats.time.mean.picos && stats.time.mean.picos <= stats.time.slowest.picos);
    } else {
        assert!(stats.time.fastest.picos == 0 && stats.time.slowest.picos == 0);
        assert!(stats.time.median.picos == 0 && stats.time.mean.picos == 0);
    }
    // constant counter: the same value under every heading; absent kinds stay absent
    let items = stats.get_counts(KnownCounterKind::Items);
    if with_const_counter && N > 0 {
        let c = items.unwrap();
        assert!(c.fastest == cv && c.slowest == cv && c.median == cv && c.mean == cv);
    } else {
        assert!(items.is_none());
    }
    assert!(stats.get_counts(KnownCounterKind::Bytes).is_none());
    assert!(stats.get_counts(KnownCounterKind::Chars).is_none());
    assert!(stats.get_counts(KnownCounterKind::Cycles).is_none());
    no_nan(&stats);
    // no allocation was recorded: every allocation figure is exactly zero
    assert!(stats.max_alloc.is_zero());
    for op in AllocOp::ALL {
        assert!(stats.alloc_tallies.get(op).is_zero());
    }
    kani::cover!(N < 2 || stats.time.fastest.picos < stats.time.slowest.picos);
    kani::cover!(N < 2 || (stats.time.fastest.picos == stats.time.slowest.picos && stats.time.fastest.picos > 0));
    std::mem::forget(stats);
    std::mem::forget(ctx);
}

fn narrow<const N: usize>(with_counter: bool) {
    let raw: [u16; N] = kani::any();
    let mut d = [0u128; N];
    let mut i = 0;
    while i < N {
        d[i] = raw[i] as u128;
        i += 1;
    }
    let size: u8 = kani::any();
    kani::assume(size >= 1 && size <= 8);
    time_stats::<N>(d, size as u32, with_counter);
}

// @cell props=C05 tier=quick kind=core timeout=600 mem=10 cls=N
// @desc zero samples (e.g. --sample-count 0), sample_size symbolic 0..=8: no panic, all figures 0, no NaN
#[kani::proof]
#[kani::unwind(6)]
#[kani::stub(std::hash::RandomState::new, rs_stub)]
fn c05_stats_n0() {
    let size: u8 = kani::any();
    kani::assume(size <= 8);
    time_stats::<0>([], size as u32, kani::any());
}

// @cell props=C05 tier=quick kind=core timeout=600 mem=10 cls=N
// @desc 1 sample, symbolic duration (u16) and sample size 1..=8, optional constant counter
#[kani::proof]
#[kani::unwind(6)]
#[kani::stub(std::hash::RandomState::new, rs_stub)]
fn c05_stats_n1() {
    narrow::<1>(kani::any())
}

// @cell props=C05 tier=quick kind=core timeout=900 mem=10 cls=N
// @desc 2 samples (even count: median = mean of both), symbolic u16 durations, size 1..=8
#[kani::proof]
#[kani::unwind(6)]
#[kani::stub(std::hash::RandomState::new, rs_stub)]
fn c05_stats_n2() {
    narrow::<2>(kani::any())
}

// @cell props=C05 tier=quick kind=core timeout=1200 mem=12 cls=N
// @desc 3 samples, symbolic u16 durations (ties included), size 1..=8
#[kani::proof]
#[kani::unwind(6)]
#[kani::stub(std::hash::RandomState::new, rs_stub)]
fn c05_stats_n3() {
    narrow::<3>(false)
}

// @cell props=C05 tier=thorough kind=core timeout=2400 mem=12 cls=N
// @desc 4 samples, symbolic u16 durations (ties included), size 1..=8
#[kani::proof]
#[kani::unwind(7)]
#[kani::stub(std::hash::RandomState::new, rs_stub)]
fn c05_stats_n4() {
    narrow::<4>(false)
}

// @cell props=C05 tier=thorough kind=core timeout=3000 mem=16 cls=N
// @desc 5 samples, symbolic u16 durations, size 1..=8
#[kani::proof]
#[kani::unwind(8)]
#[kani::stub(std::hash::RandomState::new, rs_stub)]
fn c05_stats_n5() {
    narrow::<5>(false)
}

// @cell props=C05 tier=thorough kind=core timeout=3000 mem=16 cls=N
// @desc 2 samples with full-width u64 durations plus one > 2^64 ps, sample size 1..=8
#[kani::proof]
#[kani::unwind(6)]
#[kani::stub(std::hash::RandomState::new, rs_stub)]
fn c05_stats_n2_wide() {
    let a: u64 = kani::any();
    let b: u64 = kani::any();
    let hi: bool = kani::any();
    let size: u8 = kani::any();
    kani::assume(size >= 1 && size <= 8);
    let d = [a as u128 + if hi { 1u128 << 64 } else { 0 }, b as u128];
    time_stats::<2>(d, size as u32, false);
}

// @cell props=C05 tier=thorough kind=attempt timeout=900 mem=16 cls=N
// @desc 2 samples with u16 durations and any sample size in u32 (>= 1)
#[kani::proof]
#[kani::unwind(6)]
#[kani::stub(std::hash::RandomState::new, rs_stub)]
fn c05_stats_n2_any_size() {
    let raw: [u16; 2] = kani::any();
    let size: u32 = kani::any();
    kani::assume(size >= 1);
    time_stats::<2>([raw[0] as u128, raw[1] as u128], size, false);
}

/// Per-input counters: the figure shown under fastest/slowest/median is the one of the very sample that
/// supplied the time. Durations are assumed pairwise distinct here so that "the sample" is unique
/// (ties are covered, for the times, by the harnesses above).
fn input_counter_stats<const N: usize>() {
    let sh = shared();
    let options = BenchOptions::default();
    let mut ctx = BenchContext::new(&sh, &options, NonZeroUsize::MIN);
    let size: u8 = kani::any();
    kani::assume(size >= 1 && size <= 4);
    ctx.samples.sample_size = size as u32;
    let d: [u16; N] = kani::any();
    let c: [u16; N] = kani::any();
    let mut i = 0;
    while i < N {
        let mut j = 0;
        while j < i {
            kani::assume(d[i] != d[j]);
            j += 1;
        }
        i += 1;
    }
    ctx.counters.verif_install_input_counts(KnownCounterKind::Items, Vec::from(c.map(|v| v as u64)));
    ctx.samples.time_samples = Vec::from(d.map(|p| TimeSample { duration: FineDuration { picos: p as u128 } }));
    let stats = ctx.compute_stats();
    let got = stats.get_counts(KnownCounterKind::Items).unwrap();
    // rank of each sample
    let mut sum = 0u64;
    let mut exp_fast = 0u64;
    let mut exp_slow = 0u64;
    let mut med_sum = 0u64;
    let mut i = 0;
    while i < N {
        let mut less = 0usize;
        let mut j = 0;
        while j < N {
            if d[j] < d[i] { less += 1 }
            j += 1;
        }
        if less == 0 { exp_fast = c[i] as u64 }
        if less == N - 1 { exp_slow = c[i] as u64 }
        if less == (N - 1) / 2 { med_sum += c[i] as u64 }
        if less == N / 2 && N % 2 == 0 { med_sum += c[i] as u64 }
        sum += c[i] as u64;
        i += 1;
    }
    assert_eq!(got.fastest, exp_fast);
    assert_eq!(got.slowest, exp_slow);
    assert_eq!(got.median, med_sum / if N % 2 == 0 { 2 } else { 1 });
    assert_eq!(got.mean, sum / N as u64);
    kani::cover!(N > 1 && d[0] > d[N - 1]);
    std::mem::forget(stats);
    std::mem::forget(ctx);
}

// @cell props=C05 tier=quick kind=core timeout=1200 mem=12 cls=N
// @desc per-input counter, 2 samples with distinct symbolic durations and symbolic per-sample counts:
// @desc fastest/slowest/median figures come from the samples that supplied the times, mean over all samples
#[kani::proof]
#[kani::unwind(6)]
#[kani::stub(std::hash::RandomState::new, rs_stub)]
fn c05_input_counter_n2() {
    input_counter_stats::<2>()
}

// @cell props=C05 tier=quick kind=core timeout=1800 mem=12 cls=N
// @desc per-input counter, 3 samples
#[kani::proof]
#[kani::unwind(6)]
#[kani::stub(std::hash::RandomState::new, rs_stub)]
fn c05_input_counter_n3() {
    input_counter_stats::<3>()
}

// @cell props=C05 tier=thorough kind=core timeout=3000 mem=16 cls=N
// @desc per-input counter, 4 samples
#[kani::proof]
#[kani::unwind(7)]
#[kani::stub(std::hash::RandomState::new, rs_stub)]
fn c05_input_counter_n4() {
    input_counter_stats::<4>()
}

/// Allocation figures: shown under fastest/slowest are those of the very samples that supplied the time;
/// the mean is taken over all samples and iterations. Needs a populated HashMap<u32, ThreadAllocInfo>
/// (hashbrown + SipHash under CBMC): attempt-only.
fn alloc_stats<const N: usize>() {
    let sh = shared();
    let options = BenchOptions::default();
    let mut ctx = BenchContext::new(&sh, &options, NonZeroUsize::MIN);
    ctx.samples.sample_size = 1;
    let d: [u16; N] = kani::any();
    let mc: [u8; N] = kani::any();
    let ac: [u8; N] = kani::any();
    let mut i = 0;
    while i < N {
        let mut j = 0;
        while j < i {
            kani::assume(d[i] != d[j]);
            j += 1;
        }
        let mut info = ThreadAllocInfo::new();
        info.max_count = mc[i] as i64;
        info.max_size = 8 * mc[i] as i64;
        info.tallies.get_mut(AllocOp::Alloc).count = ac[i] as u64;
        info.tallies.get_mut(AllocOp::Alloc).size = 16 * ac[i] as u64;
        ctx.samples.alloc_info_by_sample.insert(i as u32, info);
        i += 1;
    }
    ctx.samples.time_samples = Vec::from(d.map(|p| TimeSample { duration: FineDuration { picos: p as u128 } }));
    let stats = ctx.compute_stats();
    let (mut fast, mut slow) = (0usize, 0usize);
    let mut i = 0;
    let (mut sum_mc, mut sum_ac) = (0u64, 0u64);
    while i < N {
        if d[i] < d[fast] { fast = i }
        if d[i] > d[slow] { slow = i }
        sum_mc += mc[i] as u64;
        sum_ac += ac[i] as u64;
        i += 1;
    }
    assert!(stats.max_alloc.count.fastest == mc[fast] as f64);
    assert!(stats.max_alloc.count.slowest == mc[slow] as f64);
    assert!(stats.max_alloc.size.fastest == 8.0 * mc[fast] as f64);
    assert!(stats.max_alloc.count.mean == sum_mc as f64 / N as f64);
    let t = stats.alloc_tallies.get(AllocOp::Alloc);
    assert!(t.count.fastest == ac[fast] as f64);
    assert!(t.count.slowest == ac[slow] as f64);
    assert!(t.size.slowest == 16.0 * ac[slow] as f64);
    assert!(t.count.mean == sum_ac as f64 / N as f64);
    if N == 2 {
        assert!(stats.max_alloc.count.median == (mc[0] as f64 + mc[1] as f64) / 2.0);
        assert!(t.count.median == (ac[0] as f64 + ac[1] as f64) / 2.0);
    }
    assert!(stats.alloc_tallies.get(AllocOp::Dealloc).is_zero());
    no_nan(&stats);
    kani::cover!(fast != slow && mc[fast] > mc[slow]);
    std::mem::forget(stats);
    std::mem::forget(ctx);
}

/// SipHash replaced by the identity on the (u32) key: which bucket a key lands in is irrelevant to the statistics;
/// the real hashbrown table (probing, control bytes, growth) stays in the query. One hasher is alive at a time.
struct HGhost { magic: u64, h: u64 }
static mut HG: HGhost = HGhost { magic: 0xD1FA_57A7_1C00_0502, h: 0 };
fn hasher_write_id(_h: &mut std::hash::DefaultHasher, bytes: &[u8]) {
    unsafe {
        let mut v = 0u64;
        let mut i = 0;
        while i < bytes.len() && i < 4 {
            v |= (bytes[i] as u64) << (8 * i);
            i += 1;
        }
        HG.h = v;
    }
}
fn hasher_finish_id(_h: &std::hash::DefaultHasher) -> u64 {
    unsafe { HG.h }
}

// @cell props=C05 tier=thorough kind=attempt timeout=900 mem=24 cls=K
// @desc allocation figures, 2 samples with symbolic per-sample max-count / alloc tallies in the real HashMap
#[kani::proof]
#[kani::unwind(6)]
#[kani::stub(std::hash::RandomState::new, rs_stub)]
#[kani::stub(<std::hash::DefaultHasher as std::hash::Hasher>::write, hasher_write_id)]
#[kani::stub(<std::hash::DefaultHasher as std::hash::Hasher>::finish, hasher_finish_id)]
fn c05_alloc_by_sample_n2() {
    alloc_stats::<2>()
}

// @cell props=C19,C05 tier=quick kind=core timeout=1800 mem=16 cls=N
// @desc SampleCollection::clear() (what a tuning round calls) discards the time samples together with their
// @desc allocation data: one sample with one allocation record inserted in the real HashMap, then clear()
#[kani::proof]
#[kani::unwind(6)]
#[kani::stub(std::hash::RandomState::new, rs_stub)]
fn c19_clear_discards_alloc_info() {
    let mut sc = SampleCollection::default();
    sc.sample_size = kani::any();
    sc.time_samples = Vec::from([TimeSample { duration: FineDuration { picos: kani::any() } }]);
    let mut info = ThreadAllocInfo::new();
    info.max_count = 1;
    info.tallies.get_mut(AllocOp::Alloc).count = 1;
    sc.alloc_info_by_sample.insert(0, info);
    assert!(sc.alloc_info_by_sample.len() == 1);
    sc.clear();
    assert!(sc.time_samples.is_empty());
    assert!(sc.alloc_info_by_sample.is_empty());
    assert!(sc.alloc_info_by_sample.get(&0).is_none());
    assert!(sc.iter_count() == 0);
    kani::cover!(true);
    std::mem::forget(sc);
}
