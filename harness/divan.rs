// Kani harnesses for src/divan.rs (C14 listing runs nothing, C15 option descent through the real run_tree).
// @attach src/divan.rs
use super::*;
use crate::counter::KnownCounterKind;
use crate::entry::{BenchEntry, EntryLocation, EntryMeta, GroupEntry};
use std::sync::LazyLock;

struct Ghost {
    magic: u64,
    action: u8,
    calls: u32,
    ran: u32,
    runner_made: u32,
    painted_ignored: u32,
    painted_leaf: u32,
    rec_calls: u32,
    rec_some: bool,
}
static mut G: Ghost = Ghost {
    magic: 0xD1FA_57A7_1C00_1401,
    action: 99,
    calls: 0,
    ran: 0,
    runner_made: 0,
    painted_ignored: 0,
    painted_leaf: 0,
    rec_calls: 0,
    rec_some: false,
};

fn run_action_stub(_this: &Divan, action: Action) {
    unsafe {
        G.calls += 1;
        G.action = match action {
            Action::Bench => 0,
            Action::Test => 1,
            Action::List => 2,
            Action::ListTerse => 3,
        };
    }
}

fn any_run_ignored() -> RunIgnored {
    let k: u8 = kani::any();
    kani::assume(k < 3);
    match k { 0 => RunIgnored::No, 1 => RunIgnored::Yes, _ => RunIgnored::Only }
}

// @cell props=C14 tier=quick kind=core timeout=300 mem=8 cls=K
// @desc for every runner configuration (configured action, ignore flags, sort direction symbolic) the public
// @desc list_benches() hands the driver a list action, never Bench or Test; test_benches()/run_benches() hand Test/Bench
#[kani::proof]
#[kani::unwind(4)]
#[kani::stub(crate::divan::Divan::run_action, run_action_stub)]
fn c14_list_benches_lists() {
    let mut d = Divan::default();
    d.reverse_sort = kani::any();
    d.run_ignored = any_run_ignored();
    let a: u8 = kani::any();
    kani::assume(a < 4);
    d.action = match a { 0 => Action::Bench, 1 => Action::Test, 2 => Action::List, _ => Action::ListTerse };
    d.list_benches();
    unsafe {
        assert_eq!(G.calls, 1);
        assert!(G.action == 2 || G.action == 3, "list_benches() selected a non-list action");
    }
    d.test_benches();
    unsafe { assert!(G.calls == 2 && G.action == 1); }
    d.run_benches();
    unsafe { assert!(G.calls == 3 && G.action == 0); }
    d.main();
    unsafe { assert!(G.calls == 4 && G.action == a); }
    kani::cover!(a == 0);
    std::mem::forget(d);
}

// ---- run_bench_entry, list arm: no Bencher, no benchmark fn, no args runner

fn bench_fn(_b: Bencher) {
    unsafe { G.ran += 1; }
}
fn args_runner_fn() -> crate::benchmark::BenchArgsRunner {
    unsafe { G.runner_made += 1; }
    panic!("args runner requested while listing")
}
fn print_stub(_a: std::fmt::Arguments<'_>) {}
fn p_start_leaf(_p: &mut TreePainter, _n: &str, _l: bool) {
    unsafe {
        if (G.painted_leaf as usize) < 4 {
            PF.leaf_last[G.painted_leaf as usize] = _l;
        }
        G.painted_leaf += 1;
    }
}
/// is_last flags the driver hands to the painter (C20: glyphs encode the true position)
struct PFlags {
    magic: u64,
    leaf_last: [bool; 4],
    parent_last: [bool; 4],
    parents: u32,
    finished_parents: u32,
}
static mut PF: PFlags = PFlags { magic: 0xD1FA_57A7_1C00_2001, leaf_last: [false; 4], parent_last: [false; 4], parents: 0, finished_parents: 0 };
fn p_finish_empty(_p: &mut TreePainter) {}
fn p_ignore_leaf(_p: &mut TreePainter, _n: &str, _l: bool) {
    unsafe { G.painted_ignored += 1; }
}
fn p_start_parent(_p: &mut TreePainter, _n: &str, _l: bool) {
    unsafe {
        if (PF.parents as usize) < 4 {
            PF.parent_last[PF.parents as usize] = _l;
        }
        PF.parents += 1;
    }
}
fn p_finish_parent(_p: &mut TreePainter) {
    unsafe { PF.finished_parents += 1; }
}
fn p_finish_leaf(_p: &mut TreePainter, _l: bool, _s: &crate::stats::Stats, _f: BytesFormat) {
    panic!("statistics printed while listing")
}
fn rs_stub() -> std::hash::RandomState {
    unsafe { std::mem::zeroed() }
}

fn opt_bool(v: u8) -> Option<bool> {
    match v { 0 => None, 1 => Some(false), _ => Some(true) }
}

const LOC: EntryLocation = EntryLocation { file: "f", line: 1, col: 1 };

// @cell props=C14 tier=quick kind=core timeout=1500 mem=16 cls=K unwindset=_RINvNtCs8xvirJzNMvV_4core5array18try_from_fn_erasedINtNtNtB4_3ops9try_trait17NeverShortCircuitINtNtB4_6option6OptionyEEQINtNtB2_5drain5DrainNtNtNtCsaGCSuiCWEna_5divan7counter11any_counter16KnownCounterKindNCINvMBQ_BN_10wrap_mut_1B2e_NCNvMs_NtB2i_10collectionNtB3Q_10CounterSet9overwrite0E0EEB2k_.0:6
// @desc run_bench_entry with Action::List on a plain and on an args benchmark, effective ignore (entry level and
// @desc runner level symbolic) and --ignored/--include-ignored symbolic: the benchmark fn and the args runner are never
// @desc invoked, no statistics are printed; the entry is painted exactly once, as ignored iff it would be skipped
#[kani::proof]
#[kani::unwind(3)]
#[kani::stub(std::io::_print, print_stub)]
#[kani::stub(std::io::_eprint, print_stub)]
#[kani::stub(crate::tree_painter::TreePainter::start_leaf, p_start_leaf)]
#[kani::stub(crate::tree_painter::TreePainter::finish_empty_leaf, p_finish_empty)]
#[kani::stub(crate::tree_painter::TreePainter::ignore_leaf, p_ignore_leaf)]
#[kani::stub(crate::tree_painter::TreePainter::start_parent, p_start_parent)]
#[kani::stub(crate::tree_painter::TreePainter::finish_parent, p_finish_parent)]
#[kani::stub(crate::tree_painter::TreePainter::finish_leaf, p_finish_leaf)]
#[kani::stub(std::hash::RandomState::new, rs_stub)]
fn c14_list_arm_runs_nothing() {
    let args_kind: bool = kani::any();
    let e_ign: u8 = kani::any();
    let r_ign: u8 = kani::any();
    kani::assume(e_ign < 3 && r_ign < 3);
    let entry = BenchEntry {
        meta: EntryMeta { display_name: "b", raw_name: "b", module_path: "m", location: LOC, bench_options: None },
        bench: if args_kind { BenchEntryRunner::Args(args_runner_fn) } else { BenchEntryRunner::Plain(bench_fn) },
    };
    let mut d = Divan::default();
    d.bench_options.ignore = opt_bool(r_ign);
    d.run_ignored = any_run_ignored();
    let entry_opts = BenchOptions { ignore: opt_bool(e_ign), ..Default::default() };
    let has_entry_opts: bool = kani::any();
    let shared = SharedContext { action: Action::List, timer: Timer::Os, thread_pool: ThreadPool::new() };
    let painter = RefCell::new(TreePainter::new(0, [0; TreeColumn::COUNT]));
    d.run_bench_entry(
        Action::List,
        AnyBenchEntry::Bench(&entry),
        None,
        &shared,
        if has_entry_opts { Some(&entry_opts) } else { None },
        &painter,
        kani::any(),
    );
    let eff_ignore = opt_bool(r_ign).or(if has_entry_opts { opt_bool(e_ign) } else { None }).unwrap_or(false);
    let skipped = !d.run_ignored.should_run(eff_ignore);
    unsafe {
        assert_eq!(G.ran, 0);
        assert_eq!(G.runner_made, 0);
        assert_eq!(G.painted_ignored, skipped as u32);
        assert_eq!(G.painted_leaf, !skipped as u32);
        assert_eq!(G.magic, 0xD1FA_57A7_1C00_1401);
    }
    kani::cover!(skipped && args_kind);
    kani::cover!(!skipped && r_ign == 1 && e_ign == 2 && has_entry_opts);
    std::mem::forget(d);
    std::mem::forget(entry);
    std::mem::forget(shared);
    std::mem::forget(painter);
}

// ---- C15: option descent through the real run_tree (module -> group -> group -> benchmark)

static mut OPTS: [Option<BenchOptions<'static>>; 3] = [None, None, None];
static mut REC: Option<BenchOptions<'static>> = None;

fn o0() -> BenchOptions<'static> { unsafe { OPTS[0].clone().unwrap() } }
fn o1() -> BenchOptions<'static> { unsafe { OPTS[1].clone().unwrap() } }
fn o2() -> BenchOptions<'static> { unsafe { OPTS[2].clone().unwrap() } }

fn run_bench_entry_recorder(
    _this: &Divan,
    _action: Action,
    _bench_entry: AnyBenchEntry,
    _bench_arg_names: Option<&[&&str]>,
    _shared_context: &SharedContext,
    entry_options: Option<&BenchOptions>,
    _tree_painter: &RefCell<TreePainter>,
    _is_last_entry: bool,
) {
    unsafe {
        G.rec_calls += 1;
        G.rec_some = entry_options.is_some();
        if let Some(o) = entry_options {
            REC = Some(BenchOptions {
                sample_count: o.sample_count,
                sample_size: o.sample_size,
                threads: o.threads.as_deref().map(|t| Cow::Owned(t.to_vec())),
                counters: o.counters.clone(),
                min_time: o.min_time,
                max_time: o.max_time,
                skip_ext_time: o.skip_ext_time,
                ignore: o.ignore,
            });
        }
    }
}

fn any_opt_u32() -> Option<u32> {
    if kani::any() { Some(kani::any()) } else { None }
}
fn any_opt_bool() -> Option<bool> {
    if kani::any() { Some(kani::any()) } else { None }
}
fn any_opt_dur() -> Option<Duration> {
    if kani::any() { Some(Duration::from_nanos(kani::any::<u32>() as u64)) } else { None }
}
static T1: [usize; 1] = [3];
static T2: [usize; 2] = [1, 2];
fn any_threads() -> Option<Cow<'static, [usize]>> {
    let k: u8 = kani::any();
    kani::assume(k < 3);
    match k { 0 => None, 1 => Some(Cow::Borrowed(&T1[..])), _ => Some(Cow::Borrowed(&T2[..])) }
}
fn any_options() -> BenchOptions<'static> {
    let mut counters = crate::counter::CounterSet::default();
    if kani::any() { counters.insert(BytesCount::new(kani::any::<u64>())); }
    if kani::any() { counters.insert(ItemsCount::new(kani::any::<u64>())); }
    BenchOptions {
        sample_count: any_opt_u32(),
        sample_size: any_opt_u32(),
        threads: any_threads(),
        counters,
        min_time: any_opt_dur(),
        max_time: any_opt_dur(),
        skip_ext_time: any_opt_bool(),
        ignore: any_opt_bool(),
    }
}
fn tlen(o: &BenchOptions) -> Option<usize> {
    o.threads.as_deref().map(|t| t.len())
}

// @cell props=C15 tier=quick kind=core timeout=2400 mem=16 cls=K unwindset=_RINvNtCs8xvirJzNMvV_4core5array18try_from_fn_erasedINtNtNtB4_3ops9try_trait17NeverShortCircuitINtNtB4_6option6OptionyEEQINtNtB2_5drain5DrainNtNtNtCsaGCSuiCWEna_5divan7counter11any_counter16KnownCounterKindNCINvMBQ_BN_10wrap_mut_1B2e_NCNvMs_NtB2i_10collectionNtB3Q_10CounterSet9overwrite0E0EEB2k_.0:6
// @desc the real run_tree on module -> group(outer) -> group(inner) -> benchmark; the three attribute option sets are
// @desc symbolic (every field set/unset + value); run_bench_entry replaced by a recorder of the options it receives:
// @desc each field is the benchmark's own value, else the inner group's, else the outer group's, else unset - per field
#[kani::proof]
#[kani::unwind(3)]
#[kani::stub(crate::divan::Divan::run_bench_entry, run_bench_entry_recorder)]
#[kani::stub(std::io::_print, print_stub)]
#[kani::stub(crate::tree_painter::TreePainter::start_parent, p_start_parent)]
#[kani::stub(crate::tree_painter::TreePainter::finish_parent, p_finish_parent)]
fn c15_run_tree_descent() {
    let set: [bool; 3] = [kani::any(), kani::any(), kani::any()]; // does level i carry options at all?
    let a = any_options(); // outer group
    let b = any_options(); // inner group
    let c = any_options(); // benchmark
    unsafe {
        OPTS[0] = Some(a.clone());
        OPTS[1] = Some(b.clone());
        OPTS[2] = Some(c.clone());
    }
    let g_outer = GroupEntry {
        meta: EntryMeta { display_name: "go", raw_name: "go", module_path: "m", location: LOC,
            bench_options: if set[0] { Some(LazyLock::new(o0)) } else { None } },
        generic_benches: None,
    };
    let g_inner = GroupEntry {
        meta: EntryMeta { display_name: "gi", raw_name: "gi", module_path: "m::go", location: LOC,
            bench_options: if set[1] { Some(LazyLock::new(o1)) } else { None } },
        generic_benches: None,
    };
    let bench = BenchEntry {
        meta: EntryMeta { display_name: "b", raw_name: "b", module_path: "m::go::gi", location: LOC,
            bench_options: if set[2] { Some(LazyLock::new(o2)) } else { None } },
        bench: BenchEntryRunner::Plain(bench_fn),
    };
    let tree = vec![EntryTree::Parent { raw_name: "m", group: None, children: vec![
        EntryTree::Parent { raw_name: "go", group: Some(&g_outer), children: vec![
            EntryTree::Parent { raw_name: "gi", group: Some(&g_inner), children: vec![
                EntryTree::Leaf { entry: AnyBenchEntry::Bench(&bench), args: None } ] } ] } ] }];
    let d = Divan::default();
    let shared = SharedContext { action: Action::Test, timer: Timer::Os, thread_pool: ThreadPool::new() };
    let painter = RefCell::new(TreePainter::new(0, [0; TreeColumn::COUNT]));
    d.run_tree(Action::Test, &tree, &shared, None, &painter);
    let none = BenchOptions::default();
    let (ea, eb, ec) = (if set[0] { &a } else { &none }, if set[1] { &b } else { &none }, if set[2] { &c } else { &none });
    unsafe {
        // C20: every level is entered and left exactly once; an only child is the last child
        assert_eq!(PF.parents, 3);
        assert_eq!(PF.finished_parents, 3);
        assert!(PF.parent_last[0] && PF.parent_last[1] && PF.parent_last[2]);
        assert_eq!(G.rec_calls, 1);
        assert_eq!(G.rec_some, set[0] || set[1] || set[2]);
        let r = match &REC { Some(r) => r, None => &none };
        assert_eq!(r.sample_count, ec.sample_count.or(eb.sample_count).or(ea.sample_count));
        assert_eq!(r.sample_size, ec.sample_size.or(eb.sample_size).or(ea.sample_size));
        assert_eq!(r.min_time, ec.min_time.or(eb.min_time).or(ea.min_time));
        assert_eq!(r.max_time, ec.max_time.or(eb.max_time).or(ea.max_time));
        assert_eq!(r.skip_ext_time, ec.skip_ext_time.or(eb.skip_ext_time).or(ea.skip_ext_time));
        assert_eq!(r.ignore, ec.ignore.or(eb.ignore).or(ea.ignore));
        assert_eq!(tlen(r), tlen(ec).or(tlen(eb)).or(tlen(ea)));
        // unrolled by hand: the global unwind bound is kept at 3 (see DESIGN.md, per-loop unwinding)
        let k = KnownCounterKind::Bytes;
        assert_eq!(r.counters.get(k), ec.counters.get(k).or(eb.counters.get(k)).or(ea.counters.get(k)));
        let k = KnownCounterKind::Chars;
        assert_eq!(r.counters.get(k), ec.counters.get(k).or(eb.counters.get(k)).or(ea.counters.get(k)));
        let k = KnownCounterKind::Cycles;
        assert_eq!(r.counters.get(k), ec.counters.get(k).or(eb.counters.get(k)).or(ea.counters.get(k)));
        let k = KnownCounterKind::Items;
        assert_eq!(r.counters.get(k), ec.counters.get(k).or(eb.counters.get(k)).or(ea.counters.get(k)));
    }
    kani::cover!(set[0] && set[1] && set[2] && c.sample_count.is_none() && b.sample_count.is_none() && a.sample_count.is_some());
    kani::cover!(!set[1] && set[0] && set[2] && a.ignore == Some(true) && c.ignore == Some(false));
    std::mem::forget(tree);
    std::mem::forget(d);
    std::mem::forget(g_outer);
    std::mem::forget(g_inner);
    std::mem::forget(bench);
    std::mem::forget(shared);
    std::mem::forget(painter);
}

// ---- C15: thread-count list inside run_bench_entry (0 -> available parallelism, sorted, duplicates collapse)

struct TGhost {
    magic: u64,
    par: usize,
    n: usize,
    tc: [usize; 4],
}
static mut TG: TGhost = TGhost { magic: 0xD1FA_57A7_1C00_1501, par: 3, n: 0, tc: [0; 4] };
static mut TLIST: [usize; 3] = [0; 3];

fn known_parallelism_stub() -> NonZeroUsize {
    NonZeroUsize::new(unsafe { TG.par }).unwrap()
}
fn bench_rec_threads(b: Bencher) {
    unsafe {
        if TG.n < 4 {
            TG.tc[TG.n] = b.context.thread_count.get();
        }
        TG.n += 1;
    }
}
fn format_stub(_a: std::fmt::Arguments<'_>) -> String {
    String::new()
}

// @cell props=C15 tier=quick kind=core timeout=2400 mem=24 cls=K
// @desc run_bench_entry in test mode with threads = [a, b, c] (symbolic, each in 0..=3, available parallelism
// @desc stubbed to 3): the benchmark is entered once per distinct effective thread count, in ascending order,
// @desc 0 counting as the available parallelism
#[kani::proof]
#[kani::unwind(5)]
#[kani::stub(std::io::_print, print_stub)]
#[kani::stub(std::io::_eprint, print_stub)]
#[kani::stub(alloc::fmt::format, format_stub)]
#[kani::stub(crate::util::known_parallelism, known_parallelism_stub)]
#[kani::stub(crate::tree_painter::TreePainter::start_leaf, p_start_leaf)]
#[kani::stub(crate::tree_painter::TreePainter::finish_empty_leaf, p_finish_empty)]
#[kani::stub(crate::tree_painter::TreePainter::ignore_leaf, p_ignore_leaf)]
#[kani::stub(crate::tree_painter::TreePainter::start_parent, p_start_parent)]
#[kani::stub(crate::tree_painter::TreePainter::finish_parent, p_finish_parent)]
#[kani::stub(crate::tree_painter::TreePainter::finish_leaf, p_finish_leaf)]
#[kani::stub(std::hash::RandomState::new, rs_stub)]
fn c15_thread_counts_sorted_dedup() {
    let l: [usize; 3] = [kani::any(), kani::any(), kani::any()];
    kani::assume(l[0] <= 3 && l[1] <= 3 && l[2] <= 3);
    unsafe { TLIST = l; }
    let entry = BenchEntry {
        meta: EntryMeta { display_name: "b", raw_name: "b", module_path: "m", location: LOC, bench_options: None },
        bench: BenchEntryRunner::Plain(bench_rec_threads),
    };
    let d = Divan::default();
    let entry_opts = BenchOptions { threads: Some(Cow::Borrowed(unsafe { &TLIST[..] })), ..Default::default() };
    let shared = SharedContext { action: Action::Test, timer: Timer::Os, thread_pool: ThreadPool::new() };
    let painter = RefCell::new(TreePainter::new(0, [0; TreeColumn::COUNT]));
    d.run_bench_entry(Action::Test, AnyBenchEntry::Bench(&entry), None, &shared, Some(&entry_opts), &painter, true);
    // model: map 0 -> 3, then the distinct values ascending
    let m = [if l[0] == 0 { 3 } else { l[0] }, if l[1] == 0 { 3 } else { l[1] }, if l[2] == 0 { 3 } else { l[2] }];
    let mut exp = [0usize; 3];
    let mut k = 0;
    let mut v = 1;
    while v <= 3 {
        if m[0] == v || m[1] == v || m[2] == v {
            exp[k] = v;
            k += 1;
        }
        v += 1;
    }
    unsafe {
        assert_eq!(TG.n, k);
        let mut i = 0;
        while i < k {
            assert_eq!(TG.tc[i], exp[i]);
            i += 1;
        }
        assert_eq!(TG.magic, 0xD1FA_57A7_1C00_1501);
    }
    kani::cover!(k == 1 && l[0] == 0 && l[1] == 3);
    kani::cover!(k == 2 && l[0] == 2 && l[1] == 1 && l[2] == 2);
    kani::cover!(k == 3);
    std::mem::forget(d);
    std::mem::forget(entry);
    std::mem::forget(shared);
    std::mem::forget(painter);
}

// ---- C17 / C13: the driver runs each kept argument name with the argument it names

struct AGhost {
    magic: u64,
    n: usize,
    got: [u8; 3],
    vals: [u8; 3],
}
static mut AG: AGhost = AGhost { magic: 0xD1FA_57A7_1C00_1702, n: 0, got: [0; 3], vals: [0; 3] };
static DRV_ARGS: crate::benchmark::BenchArgs = crate::benchmark::BenchArgs::new();

fn arg_label(x: &u8) -> String {
    let mut s = String::new();
    s.push((b'a' + (*x & 15)) as char);
    s
}
fn drv_args_runner() -> crate::benchmark::BenchArgsRunner {
    DRV_ARGS.runner(
        || unsafe { AG.vals },
        arg_label,
        |_b: Bencher, x: &u8| unsafe {
            if AG.n < 3 {
                AG.got[AG.n] = *x;
            }
            AG.n += 1;
        },
    )
}

// @cell props=C17,C13,C12,C20 tier=quick kind=core timeout=2400 mem=24 cls=K ignore_re=write_bytes::<\{closure@.*\|memset.destination.region.writeable
// @desc run_bench_entry (test mode) on an args benchmark with 3 symbolic argument values after the tree kept two
// @desc of the three names in an arbitrary order (symbolic i != j: any filter + sort outcome): the function runs
// @desc exactly twice, with the argument named by the first kept label, then with the one named by the second (also
// @desc when two arguments render to the same label: one case per value); the painter is told that only the second
// @desc kept row is the last child
#[kani::proof]
#[kani::unwind(5)]
#[kani::stub(std::io::_print, print_stub)]
#[kani::stub(std::io::_eprint, print_stub)]
#[kani::stub(alloc::fmt::format, format_stub)]
#[kani::stub(crate::tree_painter::TreePainter::start_leaf, p_start_leaf)]
#[kani::stub(crate::tree_painter::TreePainter::finish_empty_leaf, p_finish_empty)]
#[kani::stub(crate::tree_painter::TreePainter::ignore_leaf, p_ignore_leaf)]
#[kani::stub(crate::tree_painter::TreePainter::start_parent, p_start_parent)]
#[kani::stub(crate::tree_painter::TreePainter::finish_parent, p_finish_parent)]
#[kani::stub(crate::tree_painter::TreePainter::finish_leaf, p_finish_leaf)]
#[kani::stub(std::hash::RandomState::new, rs_stub)]
fn c17_driver_runs_kept_args() {
    let v: [u8; 3] = [kani::any(), kani::any(), kani::any()];
    unsafe { AG.vals = v; }
    let entry = BenchEntry {
        meta: EntryMeta { display_name: "b", raw_name: "b", module_path: "m", location: LOC, bench_options: None },
        bench: BenchEntryRunner::Args(drv_args_runner),
    };
    let names: &'static [&'static str] = AnyBenchEntry::Bench(&entry).arg_names().unwrap();
    assert_eq!(names.len(), 3);
    let i: usize = kani::any();
    let j: usize = kani::any();
    kani::assume(i < 3 && j < 3 && i != j);
    let kept: [&&str; 2] = [&names[i], &names[j]];
    let d = Divan::default();
    let shared = SharedContext { action: Action::Test, timer: Timer::Os, thread_pool: ThreadPool::new() };
    let painter = RefCell::new(TreePainter::new(0, [0; TreeColumn::COUNT]));
    let entry_is_last: bool = kani::any();
    d.run_bench_entry(Action::Test, AnyBenchEntry::Bench(&entry), Some(&kept[..]), &shared, None, &painter, entry_is_last);
    unsafe {
        // C20: the benchmark is opened as a parent carrying the entry's own position; of the two kept argument rows
        // only the second is drawn as the last child, whatever was filtered out of the original three
        assert_eq!(PF.parents, 1);
        assert_eq!(PF.finished_parents, 1);
        assert_eq!(PF.parent_last[0], entry_is_last);
        assert_eq!(G.painted_leaf, 2);
        assert!(!PF.leaf_last[0] && PF.leaf_last[1]);
        assert_eq!(PF.magic, 0xD1FA_57A7_1C00_2001);
        assert_eq!(AG.n, 2);
        assert_eq!(AG.got[0], v[i]);
        assert_eq!(AG.got[1], v[j]);
        assert_eq!(AG.magic, 0xD1FA_57A7_1C00_1702);
    }
    // the labels are the renderings of those very arguments
    assert_eq!(kept[0].as_bytes()[0], b'a' + (v[i] & 15));
    kani::cover!(i == 2 && j == 0 && v[0] != v[2]);
    kani::cover!((v[i] & 15) == (v[j] & 15) && v[i] != v[j]);
    kani::cover!(i == 1 && j == 2);
    std::mem::forget(d);
    std::mem::forget(entry);
    std::mem::forget(shared);
    std::mem::forget(painter);
}

// @cell props=C17,C13,C12,C20 tier=quick kind=core timeout=2400 mem=24 cls=K ignore_re=write_bytes::<\{closure@.*\|memset.destination.region.writeable
// @desc the same when nothing was filtered out: all three names kept, in an arbitrary order (symbolic permutation =
// @desc any sort outcome): three runs, each with the argument its label names; only the third row is the last child
#[kani::proof]
#[kani::unwind(5)]
#[kani::stub(std::io::_print, print_stub)]
#[kani::stub(std::io::_eprint, print_stub)]
#[kani::stub(alloc::fmt::format, format_stub)]
#[kani::stub(crate::tree_painter::TreePainter::start_leaf, p_start_leaf)]
#[kani::stub(crate::tree_painter::TreePainter::finish_empty_leaf, p_finish_empty)]
#[kani::stub(crate::tree_painter::TreePainter::ignore_leaf, p_ignore_leaf)]
#[kani::stub(crate::tree_painter::TreePainter::start_parent, p_start_parent)]
#[kani::stub(crate::tree_painter::TreePainter::finish_parent, p_finish_parent)]
#[kani::stub(crate::tree_painter::TreePainter::finish_leaf, p_finish_leaf)]
#[kani::stub(std::hash::RandomState::new, rs_stub)]
fn c17_driver_runs_all_args_permuted() {
    let v: [u8; 3] = [kani::any(), kani::any(), kani::any()];
    unsafe { AG.vals = v; }
    let entry = BenchEntry {
        meta: EntryMeta { display_name: "b", raw_name: "b", module_path: "m", location: LOC, bench_options: None },
        bench: BenchEntryRunner::Args(drv_args_runner),
    };
    let names: &'static [&'static str] = AnyBenchEntry::Bench(&entry).arg_names().unwrap();
    assert_eq!(names.len(), 3);
    let i: usize = kani::any();
    let j: usize = kani::any();
    kani::assume(i < 3 && j < 3 && i != j);
    let k = 3 - i - j;
    let kept: [&&str; 3] = [&names[i], &names[j], &names[k]];
    let d = Divan::default();
    let shared = SharedContext { action: Action::Test, timer: Timer::Os, thread_pool: ThreadPool::new() };
    let painter = RefCell::new(TreePainter::new(0, [0; TreeColumn::COUNT]));
    d.run_bench_entry(Action::Test, AnyBenchEntry::Bench(&entry), Some(&kept[..]), &shared, None, &painter, true);
    unsafe {
        assert_eq!(PF.parents, 1);
        assert_eq!(PF.finished_parents, 1);
        assert_eq!(G.painted_leaf, 3);
        assert!(!PF.leaf_last[0] && !PF.leaf_last[1] && PF.leaf_last[2]);
        assert_eq!(AG.n, 3);
        assert_eq!(AG.got[0], v[i]);
        assert_eq!(AG.got[1], v[j]);
        assert_eq!(AG.got[2], v[k]);
        assert_eq!(AG.magic, 0xD1FA_57A7_1C00_1702);
    }
    kani::cover!(i == 2 && j == 0 && v[0] != v[2] && v[1] != v[0]);
    kani::cover!(i == 0 && j == 1);
    std::mem::forget(d);
    std::mem::forget(entry);
    std::mem::forget(shared);
    std::mem::forget(painter);
}

// (A cell driving the real `Divan::run_action` with one registered entry - to decide that the tree walk receives
// the *requested* action - was tried twice (with and without EntryTree::retain / sort_by_attr stubbed) and did not
// finish in 2400 s / 1500 s: `module_path.split("::")` (two-way string searcher), `max_name_span` and the tree
// construction are in the query. Seeded change C14-A (run_tree(self.action, ..)) is therefore not caught.)

// (Two cells on `run_tree_list` - terse listing prints one line per kept case, with a symbolic and with a concrete
// subset of kept runtime arguments, `_print` stubbed to a line counter - were tried and did not finish in 1800 s
// (7.5 GB): the terse lister stays outside the claim; seeded change C14-B is not caught.)

// ---- C14(b): terse listing vs what a test run executes (ignore resolution)

struct LGhost {
    magic: u64,
    lines: u32,
}
static mut LG: LGhost = LGhost { magic: 0xD1FA_57A7_1C00_1403, lines: 0 };
/// Kani's std replaces `println!` by a macro that only evaluates its arguments, so `_print` is never reached and a
/// printed line cannot be observed directly. `run_tree_list` pushes a node's display name onto the path right after
/// the ignore test and right before it prints the leaf's line (or descends): the push of the *leaf's* name is taken
/// as "the line is printed". Building the path text itself is cut out (the text cannot be observed anyway).
fn push_str_rec(_s: &mut String, t: &str) {
    unsafe {
        if t.len() == 1 && t.as_bytes()[0] == b'b' {
            LG.lines += 1;
        }
    }
}
static mut LOPTS: [u8; 2] = [0; 2];
fn lo0() -> BenchOptions<'static> { BenchOptions { ignore: opt_bool(unsafe { LOPTS[0] }), ..Default::default() } }
fn lo1() -> BenchOptions<'static> { BenchOptions { ignore: opt_bool(unsafe { LOPTS[1] }), ..Default::default() } }

// @cell props=C14 tier=quick kind=core timeout=1500 mem=20 cls=K unwindre=try_from_fn_erased.*CounterSet9overwrite.*\.0$:6
// @desc the real run_tree_list on module -> group -> benchmark with ignore symbolic (unset/false/true) on the group
// @desc and on the benchmark (the runner-level value is unset: no public API sets it), group/benchmark option sets
// @desc present or absent, and --ignored/--include-ignored symbolic: exactly one line is emitted (observed as control
// @desc reaching the print statement) iff a test run executes the case, i.e. iff should_run(effective ignore) with
// @desc effective ignore = the benchmark's value, else the group's, else false
#[kani::proof]
#[kani::unwind(3)]
#[kani::stub(std::string::String::push_str, push_str_rec)]
fn c14_terse_list_matches_run_ignore() {
    let g_ign: u8 = kani::any();
    let b_ign: u8 = kani::any();
    // the runner-level `ignore` cannot be set through the public API (no builder, no flag): always unset
    let r_ign: u8 = 0;
    kani::assume(g_ign < 3 && b_ign < 3);
    let g_has: bool = kani::any();
    let b_has: bool = kani::any();
    unsafe { LOPTS = [g_ign, b_ign]; }
    let group = GroupEntry {
        meta: EntryMeta { display_name: "g", raw_name: "g", module_path: "m", location: LOC,
            bench_options: if g_has { Some(LazyLock::new(lo0)) } else { None } },
        generic_benches: None,
    };
    let bench = BenchEntry {
        meta: EntryMeta { display_name: "b", raw_name: "b", module_path: "m::g", location: LOC,
            bench_options: if b_has { Some(LazyLock::new(lo1)) } else { None } },
        bench: BenchEntryRunner::Plain(bench_fn),
    };
    let tree = vec![EntryTree::Parent { raw_name: "m", group: None, children: vec![
        EntryTree::Parent { raw_name: "g", group: Some(&group), children: vec![
            EntryTree::Leaf { entry: AnyBenchEntry::Bench(&bench), args: None } ] } ] }];
    let mut d = Divan::default();
    d.bench_options.ignore = opt_bool(r_ign);
    d.run_ignored = any_run_ignored();
    d.run_tree_list(&tree, "", None);
    let eff = opt_bool(r_ign)
        .or(if b_has { opt_bool(b_ign) } else { None })
        .or(if g_has { opt_bool(g_ign) } else { None })
        .unwrap_or(false);
    let runs = d.run_ignored.should_run(eff);
    unsafe {
        kani::cover!(LG.lines == 1 && runs && eff);
        kani::cover!(LG.lines == 0 && !runs && !eff);
        kani::cover!(LG.lines == 1 && runs && g_has && g_ign == 1 && b_has && b_ign == 2);
        assert_eq!(LG.lines, runs as u32);
        assert_eq!(G.ran, 0);
        assert_eq!(LG.magic, 0xD1FA_57A7_1C00_1403);
    }
    std::mem::forget(tree);
    std::mem::forget(d);
    std::mem::forget(group);
    std::mem::forget(bench);
}

static TLIST2: [usize; 3] = [0, 1, 3];

// @cell props=C15 tier=quick kind=core timeout=1800 mem=20 cls=K
// @desc concrete witness for the same code (kept cheap on purpose: reordering sort/dedup makes the symbolic cell
// @desc above run into ipnsort on a symbolic length): threads = [0, 1, 3] with available parallelism 3 is entered
// @desc for t=1 and t=3 only
#[kani::proof]
#[kani::unwind(5)]
#[kani::stub(std::io::_print, print_stub)]
#[kani::stub(std::io::_eprint, print_stub)]
#[kani::stub(alloc::fmt::format, format_stub)]
#[kani::stub(crate::util::known_parallelism, known_parallelism_stub)]
#[kani::stub(crate::tree_painter::TreePainter::start_leaf, p_start_leaf)]
#[kani::stub(crate::tree_painter::TreePainter::finish_empty_leaf, p_finish_empty)]
#[kani::stub(crate::tree_painter::TreePainter::ignore_leaf, p_ignore_leaf)]
#[kani::stub(crate::tree_painter::TreePainter::start_parent, p_start_parent)]
#[kani::stub(crate::tree_painter::TreePainter::finish_parent, p_finish_parent)]
#[kani::stub(crate::tree_painter::TreePainter::finish_leaf, p_finish_leaf)]
#[kani::stub(std::hash::RandomState::new, rs_stub)]
fn c15_thread_counts_non_adjacent_duplicate() {
    let entry = BenchEntry {
        meta: EntryMeta { display_name: "b", raw_name: "b", module_path: "m", location: LOC, bench_options: None },
        bench: BenchEntryRunner::Plain(bench_rec_threads),
    };
    let d = Divan::default();
    let entry_opts = BenchOptions { threads: Some(Cow::Borrowed(&TLIST2[..])), ..Default::default() };
    let shared = SharedContext { action: Action::Test, timer: Timer::Os, thread_pool: ThreadPool::new() };
    let painter = RefCell::new(TreePainter::new(0, [0; TreeColumn::COUNT]));
    d.run_bench_entry(Action::Test, AnyBenchEntry::Bench(&entry), None, &shared, Some(&entry_opts), &painter, kani::any());
    unsafe {
        assert_eq!(TG.n, 2);
        assert_eq!(TG.tc[0], 1);
        assert_eq!(TG.tc[1], 3);
    }
    kani::cover!(true);
    std::mem::forget(d);
    std::mem::forget(entry);
    std::mem::forget(shared);
    std::mem::forget(painter);
}
