// Kani harnesses for src/counter/collection.rs (C15: counters resolve per kind).
// @attach src/counter/collection.rs
use super::*;
use crate::counter::{BytesCount, CharsCount, CyclesCount, ItemsCount};

fn any_kind() -> KnownCounterKind {
    let k: u8 = kani::any();
    kani::assume(k < 4);
    KnownCounterKind::ALL[k as usize]
}

fn any_set() -> CounterSet {
    let mut c = CounterSet::default();
    if kani::any() { c.insert(BytesCount::new(kani::any::<u64>())); }
    if kani::any() { c.insert(CharsCount::new(kani::any::<u64>())); }
    if kani::any() { c.insert(CyclesCount::new(kani::any::<u64>())); }
    if kani::any() { c.insert(ItemsCount::new(kani::any::<u64>())); }
    c
}

// @cell props=C15 tier=quick kind=core timeout=600 mem=8 cls=N
// @desc CounterSet::overwrite is per kind; to_collection() carries exactly the set kinds; a later
// @desc set_counter (what Bencher::counter does) replaces only the inherited counter of its own kind
#[kani::proof]
#[kani::unwind(6)]
fn c15_counter_per_kind() {
    let a = any_set();
    let b = any_set();
    let r = a.overwrite(&b);
    for k in KnownCounterKind::ALL {
        assert_eq!(r.get(k), a.get(k).or(b.get(k)));
    }
    let mut coll = r.to_collection();
    for k in KnownCounterKind::ALL {
        match r.get(k) {
            Some(v) => {
                assert_eq!(coll.counts(k).len(), 1);
                assert_eq!(coll.counts(k)[0], v);
            }
            None => assert!(coll.counts(k).is_empty()),
        }
        assert!(!coll.uses_input_counts(k));
    }
    // Bencher::counter(c) == counters.set_counter(AnyCounter::new(c))
    let kind = any_kind();
    let newv: u64 = kani::any();
    coll.set_counter(AnyCounter::known(kind, newv));
    for k in KnownCounterKind::ALL {
        if k == kind {
            assert_eq!(coll.counts(k).len(), 1);
            assert_eq!(coll.counts(k)[0], newv);
        } else {
            match r.get(k) {
                Some(v) => {
                    assert_eq!(coll.counts(k).len(), 1);
                    assert_eq!(coll.counts(k)[0], v);
                }
                None => assert!(coll.counts(k).is_empty()),
            }
        }
    }
    kani::cover!(r.get(kind).is_some());
    kani::cover!(r.get(kind).is_none());
    std::mem::forget(coll);
}

// @cell props=C15 tier=quick kind=core timeout=300 mem=8 cls=N
// @desc the typed constructors map to their own kind: BytesCount->Bytes, CharsCount->Chars, CyclesCount->Cycles,
// @desc ItemsCount->Items, with the value preserved (insert on an empty set sets exactly that slot)
#[kani::proof]
#[kani::unwind(6)]
fn c15_counter_kind_mapping() {
    let v: u64 = kani::any();
    let which: u8 = kani::any();
    kani::assume(which < 4);
    let mut s = CounterSet::default();
    let kind = match which {
        0 => { s.insert(BytesCount::new(v)); KnownCounterKind::Bytes }
        1 => { s.insert(CharsCount::new(v)); KnownCounterKind::Chars }
        2 => { s.insert(CyclesCount::new(v)); KnownCounterKind::Cycles }
        _ => { s.insert(ItemsCount::new(v)); KnownCounterKind::Items }
    };
    for k in KnownCounterKind::ALL {
        if k == kind { assert_eq!(s.get(k), Some(v)); } else { assert_eq!(s.get(k), None); }
    }
    kani::cover!(which == 2 && v == u64::MAX);
}

/// Helper for harnesses in other modules (stats): installs a per-input counter of kind `kind` whose
/// per-sample counts are exactly `counts` (what `set_input_counter` + one `push_counter` per sample produce),
/// with an exact-length Vec so that CBMC sees constant lengths. Inherent impl so that it is reachable
/// although `counter::collection` is a private module.
impl CounterCollection {
    pub(crate) fn verif_install_input_counts(&mut self, kind: KnownCounterKind, counts: Vec<MaxCountUInt>) {
        // non-zero-sized closure: boxing a ZST fn item as `dyn Fn` ICEs kani-compiler 0.68
        let k: MaxCountUInt = counts.len() as MaxCountUInt;
        let info = self.info_mut(kind);
        info.counts = counts;
        info.count_input = Some(Box::new(move |_p: *const ()| k));
    }
}

// @cell props=C05 tier=quick kind=core timeout=900 mem=10 cls=N
// @desc set_input_counter + get_input_count: the registered closure is applied to the given input, only for its own kind;
// @desc an inherited constant counter of the same kind is replaced (no stale element shifts the per-sample figures)
#[kani::proof]
#[kani::unwind(6)]
fn c05_input_counter_roundtrip() {
    // a constant counter of the same kind may have been inherited: the per-input counter replaces it
    let mut set = CounterSet::default();
    let had_const: bool = kani::any();
    if had_const {
        set.insert(ItemsCount::new(kani::any::<u64>()));
    }
    let mut coll = set.to_collection();
    coll.set_input_counter(|x: &u16| ItemsCount::new(*x as u64));
    let v: u16 = kani::any();
    let got = unsafe { coll.get_input_count(KnownCounterKind::Items, &v) };
    assert_eq!(got, Some(v as u64));
    assert!(unsafe { coll.get_input_count(KnownCounterKind::Bytes, &v) }.is_none());
    assert!(coll.uses_input_counts(KnownCounterKind::Items));
    assert!(!coll.uses_input_counts(KnownCounterKind::Chars));
    // no stale per-sample figure: sample i's count will be element i
    assert!(coll.counts(KnownCounterKind::Items).is_empty());
    coll.push_counter(AnyCounter::known(KnownCounterKind::Items, 5));
    assert!(coll.counts(KnownCounterKind::Items).len() == 1 && coll.counts(KnownCounterKind::Items)[0] == 5);
    // tuning discards the per-input figures of earlier rounds, constant counters of other kinds stay
    coll.clear_input_counts();
    assert!(coll.counts(KnownCounterKind::Items).is_empty());
    kani::cover!(v == 7 && had_const);
    std::mem::forget(coll);
}
