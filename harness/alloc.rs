// Kani harnesses for src/alloc.rs (C09 transparency, C10 tallies).
// @attach src/alloc.rs
use super::*;

// ---------------------------------------------------------------------------
// C09: AllocProfiler<Mock> forwards exactly one identical request
// ---------------------------------------------------------------------------

#[derive(Clone, Copy, PartialEq, Eq)]
enum Call {
    None,
    Alloc(usize, usize),
    Zeroed(usize, usize),
    Realloc(usize, usize, usize, usize),
    Dealloc(usize, usize, usize),
}

// One ghost struct with a unique magic (Kani 0.68 aliases plain zero statics with rustc constants).
struct Ghost {
    magic: u64,
    log: [Call; 2],
    ncalls: u32,
    ret: [usize; 2],
}
static mut G: Ghost =
    Ghost { magic: 0xD1FA_57A7_1C00_0901, log: [Call::None; 2], ncalls: 0, ret: [0; 2] };

struct Mock;

impl Mock {
    unsafe fn record(&self, c: Call) -> *mut u8 {
        let i = G.ncalls as usize;
        if i < 2 {
            G.log[i] = c;
        }
        G.ncalls += 1;
        if i < 2 {
            G.ret[i] as *mut u8
        } else {
            std::ptr::null_mut()
        }
    }
}

unsafe impl GlobalAlloc for Mock {
    unsafe fn alloc(&self, l: Layout) -> *mut u8 {
        self.record(Call::Alloc(l.size(), l.align()))
    }
    unsafe fn alloc_zeroed(&self, l: Layout) -> *mut u8 {
        self.record(Call::Zeroed(l.size(), l.align()))
    }
    unsafe fn realloc(&self, p: *mut u8, l: Layout, n: usize) -> *mut u8 {
        self.record(Call::Realloc(p as usize, l.size(), l.align(), n))
    }
    unsafe fn dealloc(&self, p: *mut u8, l: Layout) {
        self.record(Call::Dealloc(p as usize, l.size(), l.align()));
    }
}

fn any_layout() -> Layout {
    let size: usize = kani::any();
    let shift: u32 = kani::any();
    kani::assume(shift <= 12);
    let align = 1usize << shift;
    kani::assume(size <= isize::MAX as usize - (align - 1));
    Layout::from_size_align(size, align).unwrap()
}

/// One request of a symbolic kind through the profiler; returns (expected log entry, returned ptr).
unsafe fn one_request(prof: &AllocProfiler<Mock>, slot: usize, max_size: usize) -> (Call, usize) {
    let l = any_layout();
    kani::assume(l.size() <= max_size);
    let p: usize = kani::any();
    let n: usize = kani::any();
    kani::assume(n <= isize::MAX as usize - (l.align() - 1) && n <= max_size);
    let ret: usize = kani::any();
    G.ret[slot] = ret;
    let which: u8 = kani::any();
    kani::assume(which < 4);
    match which {
        0 => {
            let r = prof.alloc(l);
            assert_eq!(r as usize, ret);
            kani::cover!(r.is_null());
            (Call::Alloc(l.size(), l.align()), r as usize)
        }
        1 => {
            let r = prof.alloc_zeroed(l);
            assert_eq!(r as usize, ret);
            (Call::Zeroed(l.size(), l.align()), r as usize)
        }
        2 => {
            let r = prof.realloc(p as *mut u8, l, n);
            assert_eq!(r as usize, ret);
            kani::cover!(n < l.size());
            kani::cover!(n == l.size());
            (Call::Realloc(p, l.size(), l.align(), n), r as usize)
        }
        _ => {
            prof.dealloc(p as *mut u8, l);
            kani::cover!(l.size() == 0);
            (Call::Dealloc(p, l.size(), l.align()), 0)
        }
    }
}

// @cell props=C09 tier=quick kind=core timeout=300 mem=8 cls=K
// @desc one request of symbolic kind (alloc/alloc_zeroed/realloc/dealloc), symbolic layout (align 2^0..2^12),
// @desc ptr, new_size and inner return value (null included): inner allocator sees exactly that one request
#[kani::proof]
fn c09_forward_one() {
    let prof = AllocProfiler::new(Mock);
    unsafe {
        let (exp, _) = one_request(&prof, 0, usize::MAX);
        assert_eq!(G.ncalls, 1);
        assert!(G.log[0] == exp);
        assert_eq!(G.magic, 0xD1FA_57A7_1C00_0901);
    }
}

// @cell props=C09 tier=quick kind=core timeout=300 mem=8 cls=K
// @desc two consecutive symbolic requests: two inner calls, in order, nothing else (tally state from
// @desc the first request cannot disturb the second)
#[kani::proof]
fn c09_forward_two() {
    let prof = AllocProfiler::new(Mock);
    unsafe {
        let (e0, _) = one_request(&prof, 0, SIZE_MAX);
        let (e1, _) = one_request(&prof, 1, SIZE_MAX);
        assert_eq!(G.ncalls, 2);
        assert!(G.log[0] == e0);
        assert!(G.log[1] == e1);
        assert_eq!(G.magic, 0xD1FA_57A7_1C00_0901);
    }
}

fn try_current_none() -> Option<NonNull<ThreadAllocInfo>> {
    None
}

// @cell props=C09 tier=quick kind=core timeout=300 mem=8 cls=K
// @desc thread start-up / tear-down model: the thread-local is unavailable (try_current -> None);
// @desc the request is still forwarded unchanged and nothing is tallied
#[kani::proof]
#[kani::stub(crate::alloc::ThreadAllocInfo::try_current, try_current_none)]
fn c09_forward_no_tls() {
    let prof = AllocProfiler::new(Mock);
    unsafe {
        let (exp, _) = one_request(&prof, 0, usize::MAX);
        assert_eq!(G.ncalls, 1);
        assert!(G.log[0] == exp);
    }
}

// ---------------------------------------------------------------------------
// C10: tallies are exact; max tracks the true peak (inductive step + prefix-max sequence)
// ---------------------------------------------------------------------------

const FAR: i64 = 1i64 << 62;

/// Arbitrary tally state satisfying the representation invariant, far from the (documented,
/// unchecked) overflow limits.
fn any_info() -> ThreadAllocInfo {
    let mut info = ThreadAllocInfo::new();
    let mut i = 0;
    while i < 4 {
        info.tallies.values[i].count = kani::any();
        info.tallies.values[i].size = kani::any();
        kani::assume(info.tallies.values[i].count <= (1u64 << 62));
        kani::assume(info.tallies.values[i].size <= (1u64 << 62));
        i += 1;
    }
    info.current_count = kani::any();
    info.max_count = kani::any();
    info.current_size = kani::any();
    info.max_size = kani::any();
    kani::assume(info.current_count >= -FAR && info.current_count <= FAR);
    kani::assume(info.current_size >= -FAR && info.current_size <= FAR);
    kani::assume(info.max_count <= FAR && info.max_size <= FAR);
    // representation invariant
    kani::assume(info.max_count >= 0 && info.max_size >= 0);
    kani::assume(info.max_count >= info.current_count);
    kani::assume(info.max_size >= info.current_size);
    info
}

fn invariant(info: &ThreadAllocInfo) -> bool {
    info.max_count >= 0
        && info.max_size >= 0
        && info.max_count >= info.current_count
        && info.max_size >= info.current_size
}

fn others_unchanged(pre: &ThreadAllocInfo, post: &ThreadAllocInfo, op: AllocOp) {
    for o in AllocOp::ALL {
        if o != op {
            assert!(post.tallies.get(o).count == pre.tallies.get(o).count);
            assert!(post.tallies.get(o).size == pre.tallies.get(o).size);
        }
    }
}

const SIZE_MAX: usize = isize::MAX as usize >> 1; // sizes up to 2^62: Layout sizes are <= isize::MAX; 2^62 keeps sums below 2^63

// @cell props=C10 tier=quick kind=core timeout=300 mem=8 cls=N
// @desc inductive step: tally_alloc(size) from an arbitrary invariant-satisfying state
#[kani::proof]
#[kani::unwind(5)]
fn c10_step_alloc() {
    let mut info = any_info();
    let pre = info.clone();
    let size: usize = kani::any();
    kani::assume(size <= SIZE_MAX);
    info.tally_alloc(size);
    let t = info.tallies.get(AllocOp::Alloc);
    let p = pre.tallies.get(AllocOp::Alloc);
    assert_eq!(t.count, p.count + 1);
    assert_eq!(t.size, p.size + size as u64);
    others_unchanged(&pre, &info, AllocOp::Alloc);
    assert_eq!(info.current_count, pre.current_count + 1);
    assert_eq!(info.current_size, pre.current_size + size as i64);
    assert_eq!(info.max_count, pre.max_count.max(pre.current_count + 1));
    assert_eq!(info.max_size, pre.max_size.max(pre.current_size + size as i64));
    assert!(invariant(&info));
    kani::cover!(info.max_count > pre.max_count);
    kani::cover!(info.max_size == pre.max_size && size > 0);
}

// @cell props=C10 tier=quick kind=core timeout=300 mem=8 cls=N
// @desc inductive step: tally_dealloc(size); max figures never move, balances may go negative
#[kani::proof]
#[kani::unwind(5)]
fn c10_step_dealloc() {
    let mut info = any_info();
    let pre = info.clone();
    let size: usize = kani::any();
    kani::assume(size <= SIZE_MAX);
    info.tally_dealloc(size);
    let t = info.tallies.get(AllocOp::Dealloc);
    let p = pre.tallies.get(AllocOp::Dealloc);
    assert_eq!(t.count, p.count + 1);
    assert_eq!(t.size, p.size + size as u64);
    others_unchanged(&pre, &info, AllocOp::Dealloc);
    assert_eq!(info.current_count, pre.current_count - 1);
    assert_eq!(info.current_size, pre.current_size - size as i64);
    assert_eq!(info.max_count, pre.max_count);
    assert_eq!(info.max_size, pre.max_size);
    assert!(invariant(&info));
    kani::cover!(info.current_count < 0);
}

// @cell props=C10 tier=quick kind=core timeout=300 mem=8 cls=N
// @desc inductive step: tally_realloc(old,new): grow iff new >= old (equal = grow of 0 bytes), shrink otherwise,
// @desc bytes = |new-old|, live count unchanged, live size moves by the signed difference
#[kani::proof]
#[kani::unwind(5)]
fn c10_step_realloc() {
    let mut info = any_info();
    let pre = info.clone();
    let old: usize = kani::any();
    let new: usize = kani::any();
    kani::assume(old <= SIZE_MAX && new <= SIZE_MAX);
    info.tally_realloc(old, new);
    let op = if new < old { AllocOp::Shrink } else { AllocOp::Grow };
    let abs = if new < old { old - new } else { new - old };
    let t = info.tallies.get(op);
    let p = pre.tallies.get(op);
    assert_eq!(t.count, p.count + 1);
    assert_eq!(t.size, p.size + abs as u64);
    others_unchanged(&pre, &info, op);
    assert_eq!(info.current_count, pre.current_count);
    assert_eq!(info.max_count, pre.max_count);
    let exp = pre.current_size + (new as i64 - old as i64);
    assert_eq!(info.current_size, exp);
    assert_eq!(info.max_size, pre.max_size.max(exp));
    assert!(invariant(&info));
    kani::cover!(new == old);
    kani::cover!(new < old);
    kani::cover!(info.max_size > pre.max_size);
}

// @cell props=C10 tier=quick kind=core timeout=300 mem=8 cls=N
// @desc base case: new() and clear() give the all-zero state, which satisfies the invariant
#[kani::proof]
#[kani::unwind(5)]
fn c10_clear_is_zero() {
    let mut info = any_info();
    info.clear();
    for o in AllocOp::ALL {
        assert!(info.tallies.get(o).count == 0 && info.tallies.get(o).size == 0);
    }
    assert!(info.tallies.is_empty());
    assert!(info.current_count == 0 && info.max_count == 0 && info.current_size == 0 && info.max_size == 0);
    let fresh = ThreadAllocInfo::new();
    assert!(fresh.tallies == info.tallies);
    assert!(fresh.current_count == 0 && fresh.max_count == 0 && fresh.current_size == 0 && fresh.max_size == 0);
    assert!(invariant(&fresh));
    kani::cover!(true);
}

/// k symbolic operations after clear(): compare with a direct model (per-op counts/bytes, running
/// prefix maximum of live count / live bytes relative to the clearing point).
fn seq<const K: usize>() {
    let mut info = any_info();
    info.clear();
    let mut cnt = [0u64; 4];
    let mut byt = [0u64; 4];
    let (mut cur_c, mut cur_s, mut max_c, mut max_s) = (0i64, 0i64, 0i64, 0i64);
    let mut i = 0;
    while i < K {
        let kind: u8 = kani::any();
        kani::assume(kind < 3);
        let a: usize = kani::any();
        let b: usize = kani::any();
        kani::assume(a <= (1usize << 40) && b <= (1usize << 40));
        match kind {
            0 => {
                info.tally_alloc(a);
                cnt[AllocOp::Alloc as usize] += 1;
                byt[AllocOp::Alloc as usize] += a as u64;
                cur_c += 1;
                cur_s += a as i64;
            }
            1 => {
                info.tally_dealloc(a);
                cnt[AllocOp::Dealloc as usize] += 1;
                byt[AllocOp::Dealloc as usize] += a as u64;
                cur_c -= 1;
                cur_s -= a as i64;
            }
            _ => {
                info.tally_realloc(a, b);
                let (op, d) = if b < a { (AllocOp::Shrink, a - b) } else { (AllocOp::Grow, b - a) };
                cnt[op as usize] += 1;
                byt[op as usize] += d as u64;
                cur_s += b as i64 - a as i64;
            }
        }
        if cur_c > max_c {
            max_c = cur_c;
        }
        if cur_s > max_s {
            max_s = cur_s;
        }
        i += 1;
    }
    for o in AllocOp::ALL {
        assert!(info.tallies.get(o).count == cnt[o as usize]);
        assert!(info.tallies.get(o).size == byt[o as usize]);
    }
    assert_eq!(info.current_count, cur_c);
    assert_eq!(info.current_size, cur_s);
    assert_eq!(info.max_count, max_c);
    assert_eq!(info.max_size, max_s);
    kani::cover!(max_c > cur_c && cur_c < 0);
    kani::cover!(max_s > cur_s && max_s > 0);
}

// @cell props=C10 tier=quick kind=core timeout=600 mem=8 cls=N
// @desc 3 symbolic operations (kind, sizes <= 2^40) after clear(): exact per-op counts/bytes and true prefix peak
#[kani::proof]
#[kani::unwind(5)]
fn c10_seq3() {
    seq::<3>()
}

// @cell props=C10 tier=thorough kind=core timeout=1800 mem=10 cls=N
// @desc 5 symbolic operations after clear()
#[kani::proof]
#[kani::unwind(7)]
fn c10_seq5() {
    seq::<5>()
}

// @cell props=C10,C09 tier=quick kind=core timeout=600 mem=8 cls=K
// @desc through the public GlobalAlloc surface: two symbolic requests on AllocProfiler<Mock> change the
// @desc thread's real thread-local tally exactly as the model says (alloc_zeroed counts as alloc)
#[kani::proof]
#[kani::unwind(5)]
fn c10_profiler_tallies_tls() {
    let prof = AllocProfiler::new(Mock);
    let mut tls = ThreadAllocInfo::current().unwrap();
    unsafe { tls.as_mut().clear() };
    let mut cnt = [0u64; 4];
    let mut byt = [0u64; 4];
    let (mut cur_c, mut cur_s, mut max_c, mut max_s) = (0i64, 0i64, 0i64, 0i64);
    let mut i = 0;
    while i < 2 {
        unsafe {
            let (call, _) = one_request(&prof, i, SIZE_MAX);
            match call {
                Call::Alloc(s, _) | Call::Zeroed(s, _) => {
                    cnt[AllocOp::Alloc as usize] += 1;
                    byt[AllocOp::Alloc as usize] += s as u64;
                    cur_c += 1;
                    cur_s += s as i64;
                }
                Call::Dealloc(_, s, _) => {
                    cnt[AllocOp::Dealloc as usize] += 1;
                    byt[AllocOp::Dealloc as usize] += s as u64;
                    cur_c -= 1;
                    cur_s -= s as i64;
                }
                Call::Realloc(_, a, _, b) => {
                    let (op, d) = if b < a { (AllocOp::Shrink, a - b) } else { (AllocOp::Grow, b - a) };
                    cnt[op as usize] += 1;
                    byt[op as usize] += d as u64;
                    cur_s += b as i64 - a as i64;
                }
                Call::None => unreachable!(),
            }
        }
        if cur_c > max_c {
            max_c = cur_c;
        }
        if cur_s > max_s {
            max_s = cur_s;
        }
        i += 1;
    }
    let info = unsafe { tls.as_ref() };
    for o in AllocOp::ALL {
        assert!(info.tallies.get(o).count == cnt[o as usize]);
        assert!(info.tallies.get(o).size == byt[o as usize]);
    }
    assert_eq!(info.current_count, cur_c);
    assert_eq!(info.current_size, cur_s);
    assert_eq!(info.max_count, max_c);
    assert_eq!(info.max_size, max_s);
}
