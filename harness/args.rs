// Kani harnesses for src/benchmark/args.rs (C17: label -> index -> value kernel).
// @attach src/benchmark/args.rs
use super::*;
use crate::{
    benchmark::{BenchContext, BenchOptions},
    config::Action,
    divan::SharedContext,
    time::Timer,
    util::thread::ThreadPool,
};

struct Ghost {
    magic: u64,
    got: u16,
    calls: u32,
    made: u32,
    vals: [u8; 3],
}
static mut G: Ghost = Ghost { magic: 0xD1FA_57A7_1C00_1701, got: 0xFFFF, calls: 0, made: 0, vals: [0; 3] };
static ARGS: BenchArgs = BenchArgs::new();

fn rs_stub() -> std::hash::RandomState {
    unsafe { std::mem::zeroed() }
}

fn label(x: &u8) -> String {
    // rendering under test: one letter per value (injective on the low nibble + high bit marker)
    let mut s = String::new();
    s.push((b'a' + (*x & 15)) as char);
    s
}

// @cell props=C17 tier=quick kind=core timeout=900 mem=10 cls=K ignore_re=write_bytes::<\{closure@.*\|memset.destination.region.writeable
// @desc 3 symbolic u8 arguments; the tree keeps an arbitrary name pointer (models any sort / filter outcome): the
// @desc index recovered from the pointer is the original position, the typed argument there is the value whose
// @desc rendering is the label, the runner invokes the function with exactly that argument; a wrong item type is
// @desc rejected; the argument list is built once and shared by a second (other generic instantiation) runner
#[kani::proof]
#[kani::unwind(6)]
#[kani::stub(std::hash::RandomState::new, rs_stub)]
fn c17_label_index_value() {
    let v: [u8; 3] = [kani::any(), kani::any(), kani::any()];
    unsafe { G.vals = v; }
    let runner = ARGS.runner(
        || unsafe { G.made += 1; G.vals },
        label,
        |_b: Bencher, x: &u8| unsafe { G.got = *x as u16; G.calls += 1; },
    );
    let names = runner.arg_names();
    assert_eq!(names.len(), 3);
    let i: usize = kani::any();
    kani::assume(i < 3);
    let name_ptr: &&str = &names[i];
    let idx = crate::util::slice_ptr_index(names, name_ptr);
    assert_eq!(idx, i);
    assert_eq!(names[i].len(), 1);
    assert_eq!(names[i].as_bytes()[0], b'a' + (v[i] & 15));
    let typed = runner.args.typed_args::<u8>().unwrap();
    assert_eq!(typed.len(), 3);
    assert_eq!(typed[idx], v[i]);
    assert!(runner.args.typed_args::<u16>().is_none());
    assert!(runner.args.typed_args::<i8>().is_none());
    // run the case: the benchmarked closure receives exactly that argument
    let sh = SharedContext { action: Action::Test, timer: Timer::Os, thread_pool: ThreadPool::new() };
    let options = BenchOptions::default();
    let mut ctx = BenchContext::new(&sh, &options, std::num::NonZeroUsize::MIN);
    runner.bench(Bencher::new(&mut ctx), idx);
    unsafe {
        assert_eq!(G.calls, 1);
        assert_eq!(G.got, v[i] as u16);
    }
    // a second instantiation asks for a runner again: same list, make_args not re-evaluated
    let runner2 = ARGS.runner(
        || unsafe { G.made += 1; [0u8, 0, 0] },
        label,
        |_b: Bencher, _x: &u8| {},
    );
    unsafe {
        assert_eq!(G.made, 1);
        assert_eq!(G.magic, 0xD1FA_57A7_1C00_1701);
    }
    assert!(std::ptr::eq(runner2.arg_names().as_ptr(), names.as_ptr()));
    assert!(std::ptr::eq(runner2.args, runner.args));
    kani::cover!(i == 2 && v[0] == v[2] && v[1] != v[2]);
    kani::cover!(i == 0);
    std::mem::forget(ctx);
}

static ARGS_STR: BenchArgs = BenchArgs::new();

// @cell props=C17 tier=quick kind=core timeout=900 mem=10 cls=K
// @desc &str items (name buffer reused for the arguments): names[i] is the i-th argument itself, in order
#[kani::proof]
#[kani::unwind(6)]
fn c17_str_items_reuse() {
    let runner = ARGS_STR.runner(|| ["x", "yy", "zzz"], |s: &&str| s.to_string(), |_b: Bencher, _x: &&str| {});
    let names = runner.arg_names();
    let typed = runner.args.typed_args::<&str>().unwrap();
    let i: usize = kani::any();
    kani::assume(i < 3);
    assert_eq!(names.len(), 3);
    assert_eq!(names[i].len(), i + 1);
    assert!(std::ptr::eq(names[i].as_ptr(), typed[i].as_ptr()));
    assert_eq!(crate::util::slice_ptr_index(names, &names[i]), i);
    kani::cover!(i == 1);
}
