// Kani harnesses for src/entry/list.rs (C12: registry kernel).
// @attach src/entry/list.rs
use super::*;

static E: [u32; 3] = [0xA1B2_0001, 0xA1B2_0002, 0xA1B2_0003];
static ROOT: EntryList<u32> = EntryList::root();
static N0: EntryList<u32> = EntryList::new(&E[0]);
static N1: EntryList<u32> = EntryList::new(&E[1]);
static N2: EntryList<u32> = EntryList::new(&E[2]);

// @cell props=C12 tier=quick kind=core timeout=600 mem=8 cls=N
// @desc 3 entries pushed onto the root in any order (symbolic permutation, as constructor order is arbitrary):
// @desc iteration yields each pushed entry exactly once, nothing else, and the root contributes none
#[kani::proof]
#[kani::unwind(6)]
fn c12_entry_list_any_order() {
    let nodes: [&'static EntryList<u32>; 3] = [&N0, &N1, &N2];
    let a: usize = kani::any();
    let b: usize = kani::any();
    let c: usize = kani::any();
    kani::assume(a < 3 && b < 3 && c < 3 && a != b && b != c && a != c);
    ROOT.push(nodes[a]);
    ROOT.push(nodes[b]);
    ROOT.push(nodes[c]);
    let mut seen = [0u8; 3];
    let mut total = 0;
    for e in ROOT.iter() {
        let i = (*e - 0xA1B2_0001) as usize;
        assert!(i < 3);
        seen[i] += 1;
        total += 1;
    }
    assert_eq!(total, 3);
    assert!(seen[0] == 1 && seen[1] == 1 && seen[2] == 1);
    kani::cover!(a == 2 && b == 0);
}

static ROOT2: EntryList<u32> = EntryList::root();
static M0: EntryList<u32> = EntryList::new(&E[0]);
static M1: EntryList<u32> = EntryList::new(&E[1]);

// @cell props=C12 tier=quick kind=core timeout=600 mem=8 cls=N
// @desc a symbolic number k in 0..=2 of pushes: iteration yields exactly k entries (empty registry yields none)
#[kani::proof]
#[kani::unwind(6)]
fn c12_entry_list_count() {
    let k: u8 = kani::any();
    kani::assume(k <= 2);
    if k >= 1 {
        ROOT2.push(&M0);
    }
    if k >= 2 {
        ROOT2.push(&M1);
    }
    let mut total = 0u8;
    let mut sum = 0u32;
    for e in ROOT2.iter() {
        total += 1;
        sum += *e - 0xA1B2_0000;
    }
    assert_eq!(total, k);
    assert_eq!(sum, match k { 0 => 0, 1 => 1, _ => 3 });
    kani::cover!(k == 0);
    kani::cover!(k == 2);
}
