// Kani harnesses for src/time/fine_duration.rs (C11 Duration conversion, C18 unit selection).
// @attach src/time/fine_duration.rs
use super::*;

// @cell props=C11 tier=quick kind=core timeout=600 mem=8 cls=N
// @desc every std Duration (secs any u64, nanos < 10^9) converts to exactly (secs*10^9+nanos)*1000 ps, never panics
#[kani::proof]
fn c11_duration_to_picos_exact() {
    let secs: u64 = kani::any();
    let nanos: u32 = kani::any();
    kani::assume(nanos < 1_000_000_000);
    let d = Duration::new(secs, nanos);
    let f = FineDuration::from(d);
    assert_eq!(f.picos, (secs as u128 * 1_000_000_000 + nanos as u128) * 1000);
    kani::cover!(secs == u64::MAX && nanos == 999_999_999);
}

fn next_unit(s: TimeScale) -> Option<u128> {
    match s {
        TimeScale::PicoSec => Some(picos::NANOS),
        TimeScale::NanoSec => Some(picos::MICROS),
        TimeScale::MicroSec => Some(picos::MILLIS),
        TimeScale::MilliSec => Some(picos::SEC),
        TimeScale::Sec => Some(picos::MIN),
        TimeScale::Min => Some(picos::HOUR),
        TimeScale::Hour => Some(picos::DAY),
        TimeScale::Day => None,
    }
}

// @cell props=C18 tier=quick kind=core timeout=600 mem=8 cls=N
// @desc for every u128 picosecond value: from_picos picks the largest unit not exceeding it (ps below 1 ns),
// @desc the unit table is 1, 10^3, 10^6, 10^9, 10^12, 60e12, 3600e12, 86400e12 with the documented suffixes
#[kani::proof]
fn c18_unit_is_largest_not_exceeding() {
    let p: u128 = kani::any();
    let s = TimeScale::from_picos(p);
    if p >= picos::NANOS {
        assert!(s.picos() <= p);
    } else {
        assert!(s == TimeScale::PicoSec);
    }
    if let Some(n) = next_unit(s) {
        assert!(p < n);
    }
    // absolute table (independent of the constants module)
    let (unit, suffix): (u128, &str) = match s {
        TimeScale::PicoSec => (1, "ps"),
        TimeScale::NanoSec => (1_000, "ns"),
        TimeScale::MicroSec => (1_000_000, "µs"),
        TimeScale::MilliSec => (1_000_000_000, "ms"),
        TimeScale::Sec => (1_000_000_000_000, "s"),
        TimeScale::Min => (60_000_000_000_000, "m"),
        TimeScale::Hour => (3_600_000_000_000_000, "h"),
        TimeScale::Day => (86_400_000_000_000_000, "d"),
    };
    assert_eq!(s.picos(), unit);
    let sfx = s.suffix();
    assert_eq!(sfx.len(), suffix.len());
    assert_eq!(sfx.as_bytes()[0], suffix.as_bytes()[0]);
    assert_eq!(sfx.as_bytes()[sfx.len() - 1], suffix.as_bytes()[suffix.len() - 1]);
    kani::cover!(s == TimeScale::Day);
    kani::cover!(s == TimeScale::PicoSec);
}
