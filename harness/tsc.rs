// Kani harnesses for src/time/timestamp/tsc/mod.rs (C11).
// @attach src/time/timestamp/tsc/mod.rs
use super::*;

const PICOS: u128 = 1_000_000_000_000;

fn dur(a: u64, b: u64, f: u64) -> u128 {
    TscTimestamp { value: b }
        .duration_since(TscTimestamp { value: a }, NonZeroU64::new(f).unwrap())
        .picos
}

/// Floor characterisation without a division on the specification side:
/// q = floor(n / f)  <=>  q*f <= n < q*f + f   (everything < 2^105: no wrap in u128).
fn floor_spec(a: u64, b: u64, f: u64) {
    let got = dur(a, b, f);
    if b < a {
        assert_eq!(got, 0);
    } else {
        let n = (b - a) as u128 * PICOS;
        let f = f as u128;
        assert!(got <= n);
        let p = got * f;
        assert!(p <= n);
        assert!(n - p < f);
    }
    kani::cover!(b < a);
    kani::cover!(b > a && got == 0 && f > 1_000_000_000_000);
    kani::cover!(b > a && b - a > (1u64 << 63) && f == 1);
}

// @cell props=C11 tier=quick kind=core timeout=1500 mem=12 cls=N
// @desc a, b, f symbolic over the full u64 range (f != 0): duration_since == floor((b-a)*10^12/f), 0 if b < a
#[kani::proof]
fn c11_tsc_floor_full() {
    let a: u64 = kani::any();
    let b: u64 = kani::any();
    let f: u64 = kani::any();
    kani::assume(f != 0);
    floor_spec(a, b, f);
}

// @cell props=C11 tier=quick kind=core timeout=900 mem=10 cls=N
// @desc 8-bit slice of the same statement (a, b, f < 2^8, cast to u64): a fast guard that still decides when an
// @desc edit makes the full-width query too hard for the solver (e.g. two 128-bit divisions instead of one)
#[kani::proof]
fn c11_tsc_floor_8() {
    let a: u8 = kani::any();
    let b: u8 = kani::any();
    let f: u8 = kani::any();
    kani::assume(f != 0);
    let (a, b, f) = (a as u64, b as u64, f as u64);
    let got = dur(a, b, f);
    if b < a {
        assert_eq!(got, 0);
    } else {
        let n = (b - a) as u128 * PICOS;
        let p = got * f as u128;
        assert!(got <= n && p <= n && n - p < f as u128);
    }
    kani::cover!(b > a && f == 3);
    kani::cover!(b < a);
}

// The identity "at f = 10^12 Hz duration_since(a, b) == b - a" used by the sampling-loop harnesses as a cost
// stub is a corollary of c11_tsc_floor_full (q*f <= d*f < q*f + f  =>  q = d); the corollary itself is
// discharged by z3 in spec/c11_lemmas.smt2 (lemma `identity_at_1thz`). A direct CBMC query of the identity
// (128-bit division by the constant 10^12) did not finish in 600 s.
